"""Reference model pieces shared by several properties: the C02 validity predicate evaluated on the raw
store (symbolically on symh5, concretely on real h5py), chunked pixel streams, symbolic bin tables."""
from __future__ import annotations

import numpy as np

from .common import *  # noqa: F401,F403
from .common import (OracleFailure, SArr, SInt, and_, or_, not_, ite, ssum, concretize, sym_int, prove, cover,
                     scratch_file, CTX)


# ---------------------------------------------------------------------------
# bin tables
# ---------------------------------------------------------------------------
def concrete_bins(layout, kind="fixed", b=10):
    """layout: bins per chromosome. kind: fixed (last bin shorter), even (all equal), variable"""
    import pandas as pd
    rows = []
    for ci, nb in enumerate(layout):
        pos = 0
        for k in range(nb):
            if kind == "variable":
                w = b + 3 * ((k + ci) % 3)
            elif kind == "fixed" and k == nb - 1 and nb > 1:
                w = b - 3
            else:
                w = b
            rows.append((f"c{ci}", pos, pos + w))
            pos += w
    return pd.DataFrame(rows, columns=["chrom", "start", "end"])


# ---------------------------------------------------------------------------
# chunked streams
# ---------------------------------------------------------------------------
def sym_cuts(K, m, prefix="cut"):
    """m chunks over K records: m-1 symbolic cut points 0 <= c1 <= ... <= K, concretized (empty chunks allowed)"""
    cuts = [0]
    for i in range(1, m):
        c = sym_int(f"{prefix}{i}", 0, K)
        CTX.add(c.e >= cuts[-1] if isinstance(cuts[-1], int) else c.e >= cuts[-1])
        cuts.append(concretize(c))
    cuts.append(K)
    return cuts


def real_cuts(inputs, K, m, prefix="cut"):
    return [0] + [inputs[f"{prefix}{i}"] for i in range(1, m)] + [K]


def chunk_stream(cols, cuts, mk):
    """iterator of dict chunks; cols: name -> list; mk(list, name) builds an array"""
    for lo, hi in zip(cuts[:-1], cuts[1:]):
        yield {k: mk(v[lo:hi], k) for k, v in cols.items()}


# ---------------------------------------------------------------------------
# C02 validity predicate
# ---------------------------------------------------------------------------
def _fixed_form(starts, ends, chrom_ids, b):
    """every bin is [k*b, min((k+1)*b, L_chrom))"""
    conds = []
    n = len(starts)
    k_in_chrom = 0
    for i in range(n):
        if i and chrom_ids[i] != chrom_ids[i - 1]:
            k_in_chrom = 0
        last = (i == n - 1) or chrom_ids[i + 1] != chrom_ids[i]
        conds.append(starts[i] == k_in_chrom * b)
        if last:
            conds.append(and_(ends[i] > k_in_chrom * b, ends[i] <= (k_in_chrom + 1) * b))
        else:
            conds.append(ends[i] == (k_in_chrom + 1) * b)
        k_in_chrom += 1
    return and_(*conds)


def validity_sym(path, group="/", value_cols=("count",)):
    """list of (condition, message) over the raw symh5 store of one collection"""
    from engine import symh5
    import simplejson as json
    f = symh5.File(path, "r")
    g = f[group]
    out = []
    at = g.attrs
    pix = g["pixels"]
    cols = {k: pix[k][:] for k in pix.keys()}
    nnz = at["nnz"]
    for k, c in cols.items():
        out.append((len(c) == nnz, f"pixel column {k} has length {len(c)} but nnz attribute differs"))
    b1, b2 = list(cols["bin1_id"]), list(cols["bin2_id"])
    nbins = len(g["bins/start"])
    upper = at["storage-mode"] == "symmetric-upper"
    conds = []
    for p in range(len(b1)):
        conds.append(and_(0 <= b1[p], b1[p] < nbins, 0 <= b2[p], b2[p] < nbins))
        if upper:
            conds.append(b1[p] <= b2[p])
        if p:
            conds.append(or_(b1[p - 1] < b1[p], and_(b1[p - 1] == b1[p], b2[p - 1] < b2[p])))
    out.append((and_(*conds), "pixels are not strictly increasing / in range / upper triangular"))
    off = list(g["indexes/bin1_offset"][:])
    if len(off) != nbins + 1:
        out.append((False, f"bin1_offset has length {len(off)}, expected {nbins + 1}"))
    else:
        out.append((and_(*[off[k] == ssum([ite(x < k, 1, 0) for x in b1]) for k in range(nbins + 1)]),
                    "bin1_offset is not the run-length index of bin1_id"))
    chrom = list(g["bins/chrom"][:])
    nchroms = len(g["chroms/name"])
    coff = list(g["indexes/chrom_offset"][:])
    if len(coff) != nchroms + 1:
        out.append((False, f"chrom_offset has length {len(coff)}, expected {nchroms + 1}"))
    else:
        out.append((and_(*[coff[k] == ssum([ite(x < k, 1, 0) for x in chrom]) for k in range(nchroms + 1)]),
                    "chrom_offset is not the run-length index of bins/chrom"))
    out.append((and_(at["nbins"] == nbins, at["nchroms"] == nchroms), "nbins/nchroms attributes disagree with the tables"))
    if "count" in cols:
        out.append((at["sum"] == ssum(list(cols["count"])), "sum attribute differs from the total of the count column"))
    starts, ends = list(g["bins/start"][:]), list(g["bins/end"][:])
    bs = at["bin-size"]
    if at["bin-type"] == "fixed":
        if isinstance(bs, str):
            out.append((False, "bin-type fixed but bin-size is not a number"))
        else:
            out.append((_fixed_form(starts, ends, chrom, bs), "bin-type/bin-size attribute claims a fixed width the bin table does not have"))
    else:
        out.append((bs == "null", "bin-type variable but bin-size is not null"))
    lens = list(g["chroms/length"][:])
    conds = []
    for ci in range(nchroms):
        idx = [i for i in range(nbins) if chrom[i] == ci]
        if idx:
            conds.append(lens[ci] == ends[idx[-1]])
    out.append((and_(*conds), "chromosome lengths differ from the ends of the last bins"))
    f.close()
    return out


def validity_real(path, group="/"):
    import h5py
    with h5py.File(path, "r") as f:
        g = f[group]
        at = dict(g.attrs)
        pix = {k: g["pixels"][k][:] for k in g["pixels"].keys()}
        nnz = int(at["nnz"])
        for k, c in pix.items():
            if len(c) != nnz:
                raise OracleFailure(f"pixel column {k} has length {len(c)} but nnz={nnz}")
        b1, b2 = pix["bin1_id"].astype(np.int64), pix["bin2_id"].astype(np.int64)
        nbins = len(g["bins/start"])
        upper = at["storage-mode"] == "symmetric-upper"
        if len(b1):
            if b1.min() < 0 or b2.min() < 0 or b1.max() >= nbins or b2.max() >= nbins:
                raise OracleFailure("pixel bin id out of range")
            if upper and (b1 > b2).any():
                raise OracleFailure("lower-triangle pixel stored in symmetric-upper mode")
            key = b1 * (nbins + 1) + b2
            if (np.diff(key) <= 0).any():
                raise OracleFailure("pixels are not strictly increasing in (bin1, bin2)")
        off = g["indexes/bin1_offset"][:]
        exp = np.searchsorted(b1, np.arange(nbins + 1), side="left")
        if len(off) != nbins + 1 or not np.array_equal(off, exp):
            raise OracleFailure(f"bin1_offset {off.tolist()} is not the run-length index {exp.tolist()} of bin1_id")
        chrom = g["bins/chrom"][:].astype(np.int64)
        nchroms = len(g["chroms/name"])
        coff = g["indexes/chrom_offset"][:]
        exp = np.searchsorted(chrom, np.arange(nchroms + 1), side="left")
        if len(coff) != nchroms + 1 or not np.array_equal(coff, exp):
            raise OracleFailure("chrom_offset is not the run-length index of bins/chrom")
        if int(at["nbins"]) != nbins or int(at["nchroms"]) != nchroms:
            raise OracleFailure("nbins/nchroms attributes disagree with the tables")
        if "count" in pix and int(at["sum"]) != int(pix["count"].astype(np.int64).sum()) and pix["count"].dtype.kind in "iu":
            raise OracleFailure(f"sum attribute {at['sum']} differs from the total {pix['count'].sum()}")
        starts, ends = g["bins/start"][:].astype(np.int64), g["bins/end"][:].astype(np.int64)
        if at["bin-type"] == "fixed":
            b = int(at["bin-size"])
            if not bool(_fixed_form(starts.tolist(), ends.tolist(), chrom.tolist(), b)):
                raise OracleFailure(f"bin-size attribute {b} claims a fixed width the bin table does not have")
        elif at["bin-size"] != "null":
            raise OracleFailure("bin-type variable but bin-size is not null")
        lens = g["chroms/length"][:]
        for ci in range(nchroms):
            idx = np.flatnonzero(chrom == ci)
            if len(idx) and lens[ci] != ends[idx[-1]]:
                raise OracleFailure("chromosome length differs from the end of its last bin")


# ---------------------------------------------------------------------------
# symbolic bin tables (valid segmentations: per chromosome consecutive from 0, positive widths)
# ---------------------------------------------------------------------------
def sym_bins(layout, wmax=None, shape="any", b=None, prefix="w", names=None):
    """SFrame(chrom categorical, start, end) with symbolic widths.
    shape: 'any' (every width free in 1..wmax), 'fixed' (all but the last bin of each chromosome are `b` wide,
    last in 1..wmax)"""
    from engine import sympd
    widths = []
    for ci, nb in enumerate(layout):
        ws = []
        for k in range(nb):
            if shape == "fixed" and k < nb - 1:
                ws.append(b)
            else:
                ws.append(sym_int(f"{prefix}{ci}_{k}", 1, wmax))
        widths.append(ws)
    return bins_frame(layout, widths, sympd, names), widths


def bins_frame(layout, widths, pdmod, names=None):
    import pandas as pd
    names = list(names) if names else [f"c{ci}" for ci in range(len(layout))]
    chrom, starts, ends = [], [], []
    for ci, ws in enumerate(widths):
        pos = 0
        for w in ws:
            chrom.append(names[ci])
            starts.append(pos)
            pos = pos + w
            ends.append(pos)
    if pdmod is pd:
        return pd.DataFrame({"chrom": pd.Categorical(chrom, categories=names, ordered=True),
                             "start": np.array(starts, dtype=np.int64), "end": np.array(ends, dtype=np.int64)})
    return pdmod.DataFrame({"chrom": pd.Categorical(chrom, categories=names, ordered=True),
                            "start": SArr(starts, "int64"), "end": SArr(ends, "int64")})


def real_widths(inputs, layout, shape="any", b=None, prefix="w"):
    out = []
    for ci, nb in enumerate(layout):
        out.append([b if (shape == "fixed" and k < nb - 1) else inputs[f"{prefix}{ci}_{k}"] for k in range(nb)])
    return out


# ---------------------------------------------------------------------------
# arbitrary valid collections, constructed directly in the store (assume/guarantee, DESIGN 2.4)
# ---------------------------------------------------------------------------
def build_cooler_sym(path, bins, b1, b2, cols, upper=True, group="/", dtypes=None, mode="w"):
    """Write a collection whose pixel table is the given (symbolic) sorted records straight into symh5:
    the real create() produces the skeleton from an empty stream, then pixels/indexes/attrs are set to the
    state any valid history would have left (C02 predicate holds by construction)."""
    from engine import symh5
    from .common import symcooler, csr_offsets
    sc = symcooler()
    n = len(bins)
    uri = path if group == "/" else path + "::" + group
    dts = {"bin1_id": "int64", "bin2_id": "int64", "count": "int32"}
    dts.update(dtypes or {})
    empty = {k: SArr([], dts.get(k, "float64")) for k in ["bin1_id", "bin2_id", *cols]}
    sc.create_cooler(uri, bins, iter([empty]), columns=list(cols), dtypes={k: dts.get(k, "float64") for k in cols},
                     ordered=True, symmetric_upper=upper, mode=mode)
    f = symh5.File(path, "r+")
    g = f[group]
    K = len(b1)
    for name, items in [("bin1_id", b1), ("bin2_id", b2), *cols.items()]:
        d = g["pixels"][name]
        d.resize((K,))
        if K:
            d[0:K] = SArr(list(items), dts.get(name, "float64"))
    off = g["indexes/bin1_offset"]
    off[0:n + 1] = SArr(csr_offsets(b1, n), "int64")
    g.attrs["nnz"] = K
    if "count" in cols:
        g.attrs["sum"] = ssum(list(cols["count"])) if K else 0
    f.close()
    return uri


def build_cooler_real(path, bins, b1, b2, cols, upper=True, group="/", dtypes=None, mode="w"):
    import cooler
    import pandas as pd
    dts = {"bin1_id": "int64", "bin2_id": "int64", "count": "int32"}
    dts.update(dtypes or {})
    uri = path if group == "/" else path + "::" + group
    data = {"bin1_id": np.array(b1, dtype=dts["bin1_id"]), "bin2_id": np.array(b2, dtype=dts["bin2_id"])}
    for k, v in cols.items():
        data[k] = np.array(v, dtype=dts.get(k, "float64"))
    cooler.create_cooler(uri, bins, iter([data]), columns=list(cols), dtypes={k: dts.get(k, "float64") for k in cols},
                         ordered=True, symmetric_upper=upper, mode=mode)
    return uri


class _SymCols(dict):
    """pixel columns read back on the symbolic side: asking for a column the output does not have is a violation, not a crash"""

    def __missing__(self, k):
        from engine.symcore import prove
        prove(False, f"the output has no pixel column '{k}' (a requested value column was dropped)")
        raise AssertionError("unreachable: prove(False) ends the path")


class _RealCols(dict):
    def __missing__(self, k):
        from .common import OracleFailure
        raise OracleFailure(f"the output has no pixel column '{k}' (a requested value column was dropped)")


def read_pixels_sym(path, group="/"):
    from engine import symh5
    f = symh5.File(path, "r")
    g = f[group]
    out = _SymCols({k: list(g["pixels"][k][:]) for k in g["pixels"].keys()}), dict(g.attrs.items())
    f.close()
    return out


def read_pixels_real(path, group="/"):
    import h5py
    with h5py.File(path, "r") as f:
        g = f[group]
        return _RealCols({k: g["pixels"][k][:].tolist() for k in g["pixels"].keys()}), dict(g.attrs)


# ---------------------------------------------------------------------------
# the bin and chromosome tables a producer wrote are the ones it was given, in the given order
# ---------------------------------------------------------------------------
def named_bins(layout, kind, chrom_names=None):
    bins = concrete_bins(layout, kind)
    if chrom_names:
        bins["chrom"] = bins["chrom"].map({f"c{i}": nm for i, nm in enumerate(chrom_names)})
    return bins


def _tables_expected(bins):
    names = list(dict.fromkeys(bins["chrom"].tolist()))
    lens = [int(bins[bins["chrom"] == nm]["end"].max()) for nm in names]
    codes = [names.index(x) for x in bins["chrom"].tolist()]
    return names, lens, codes, bins["start"].tolist(), bins["end"].tolist()


def _tables_read(h5mod, path, group):
    f = h5mod.File(path, "r")
    g = f[group]
    got = ([x.decode() if isinstance(x, bytes) else str(x) for x in g["chroms/name"][:]], [int(x) for x in g["chroms/length"][:]],
           [int(x) for x in g["bins/chrom"][:]], [int(x) for x in g["bins/start"][:]], [int(x) for x in g["bins/end"][:]])
    f.close()
    return got


def tables_kept_sym(path, bins, group="/", what="output"):
    from engine import symh5
    from engine.symcore import prove
    got, exp = _tables_read(symh5, path, group), _tables_expected(bins)
    prove(list(got[0]) == exp[0] and list(got[1]) == exp[1], f"{what}: chromosome table {got[0]} {got[1]} is not the given one in its order {exp[0]} {exp[1]}")
    prove(tuple(got[2:]) == tuple(exp[2:]), f"{what}: bin table differs from the one given")


def tables_kept_real(path, bins, group="/", what="output"):
    import h5py
    from .common import OracleFailure
    got, exp = _tables_read(h5py, path, group), _tables_expected(bins)
    if list(got[0]) != exp[0] or list(got[1]) != exp[1]:
        raise OracleFailure(f"{what}: chromosome table {got[0]} {got[1]} is not the given one in its order {exp[0]} {exp[1]}")
    if tuple(got[2:]) != tuple(exp[2:]):
        raise OracleFailure(f"{what}: bin table differs from the one given")
