"""C10 - balancing weights flatten the marginals of the filtered matrix (decided part: mask set, positivity,
flat marginals at an exact fixed point)."""
from __future__ import annotations

import math

import numpy as np

from .common import *  # noqa: F401,F403
from .common import Check, OracleFailure
from .balcommon import make_sym, make_real, sym_options, real_options, mode_kw, expected_masks, chrom_of
from engine.symcore import SReal


def masks_sym(p):
    sc, clr, b1, b2, v = make_sym(p)
    layout, mode = p["layout"], p["mode"]
    n = sum(layout)
    opts = sym_options(p, n)
    bias, stats = sc.balance_cooler(clr, chunksize=None, **opts, **mode_kw(mode))
    conv = _conv_all(stats)
    cover("converged", conv)
    filt, dead, touched = expected_masks(layout, b1, b2, v, opts, mode)
    cover("some_bin_filtered", and_(conv, or_(*filt), not_(and_(*filt))))
    if opts.get("mad_max"):
        f0 = expected_masks(layout, b1, b2, v, dict(opts, mad_max=0), mode)[0]
        cover("dropped_by_mad_only", and_(conv, or_(*[and_(a, not_(b_)) for a, b_ in zip(filt, f0)])))
    cover("nothing_left", and_(conv, dead[0]))
    if bool(conv):
        ws = [SReal.of(x) for x in bias]
        conds = []
        for i in range(n):
            nan_expected = or_(filt[i], dead[i])
            # a bin no filter hits, inside a live scope, whose own filtered marginal is zero: the property text does not
            # say whether it is 'excluded for lack of data'; no assertion either way (DESIGN 4/C10)
            ambiguous = and_(not_(nan_expected), not_(touched[i]))
            conds.append(or_(ambiguous, and_(nan_expected, ws[i].isnan()), and_(not_(nan_expected), not_(ws[i].isnan()), ws[i] > 0)))
        prove(and_(*conds), "converged run: NaN bins are not exactly the bins excluded by the documented filters, "
                            "or a retained bin has a non-positive weight")
    return dict(nan=[SReal.of(x).isnan() for x in bias], converged=conv)


def masks_real(p, inputs):
    cooler, clr, b1, b2, v = make_real(p, inputs)
    layout, mode = p["layout"], p["mode"]
    n = sum(layout)
    opts = real_options(p, n, inputs)
    import warnings
    with warnings.catch_warnings():
        warnings.simplefilter("ignore")
        bias, stats = cooler.balance_cooler(clr, chunksize=None, **opts, **mode_kw(mode))
    conv = bool(stats["converged"]) if not isinstance(stats["converged"], np.ndarray) else bool(np.all(stats["converged"]))
    if isinstance(stats["converged"], np.ndarray):
        conv = bool(np.all(stats["converged"]))
    filt, dead, touched = expected_masks(layout, b1, b2, v, opts, mode)
    if conv:
        for i in range(n):
            exp_nan = bool(filt[i]) or bool(dead[i])
            if not exp_nan and not bool(touched[i]):
                continue
            if exp_nan != bool(np.isnan(bias[i])):
                raise OracleFailure(f"bin {i}: weight {bias[i]}, but documented filters say NaN={exp_nan}")
            if not exp_nan and not bias[i] > 0:
                raise OracleFailure(f"bin {i}: retained bin has non-positive weight {bias[i]}")
    return dict(nan=[bool(np.isnan(x)) for x in bias], converged=conv)


def _cases(tier):
    out = []
    if tier == "quick":
        specs = [((3,), 2, "genome", 1, 0.5, True, 2), ((2, 1), 2, "cis", 1, 1e-5, False, 2), ((1, 2), 2, "trans", 2, 0.5, False, 2),
                 ((3,), 2, "genome", 2, 1e-5, False, 2)]
    else:
        specs = []
        for tol in (0.5, 1e-5):
            specs += [((3,), 2, "genome", 1, tol, True, 3), ((2, 1), 2, "cis", 1, tol, False, 3), ((1, 2), 2, "trans", 1, tol, False, 3),
                      ((3,), 2, "genome", 2, tol, False, 3), ((2, 2), 2, "cis", 2, tol, False, 2), ((2, 2), 2, "trans", 2, tol, False, 2),
                      ((4,), 3, "genome", 1, tol, False, 2)]
    for layout, K, mode, iters, tol, bl, vmax in specs:
        out.append(dict(layout=list(layout), K=K, mode=mode, max_iters=iters, tol=tol, blacklist=bl, vmax=vmax, concrete_positions=True))
    # MAD-max filter switched on (data enumerated by solver forks, so log/exp/median run on concrete floats; thresholds symbolic)
    for layout, mode, mad in ([((3,), "genome", 1), ((2, 2), "genome", 1)] if tier == "quick" else
                              [((3,), "genome", 1), ((2, 2), "genome", 1), ((2, 2), "cis", 1), ((4,), "genome", 2), ((1, 3), "genome", 1), ((2, 2), "trans", 1)]):
        out.append(dict(layout=list(layout), K=2, mode=mode, max_iters=2, tol=0.5, blacklist=False, vmax=3 if tier == "quick" else 4,
                        concrete_positions=True, mad_max=mad))
    # a float64 count column with fractional values: the non-zero filter counts pixels, the count filter sums magnitudes
    out.append(dict(layout=[3], K=2, mode="genome", max_iters=1, tol=0.5, blacklist=False, vmax=3, concrete_positions=True, float_counts=True))
    if tier != "quick":
        out.append(dict(layout=[2, 1], K=2, mode="cis", max_iters=2, tol=0.5, blacklist=False, vmax=3, concrete_positions=True, float_counts=True))
        out.append(dict(layout=[2, 2], K=2, mode="genome", max_iters=2, tol=0.5, blacklist=False, vmax=3, concrete_positions=True, float_counts=True, mad_max=1))
    # history: another collection with a different chromosome layout was balanced at the same URI earlier in this process
    out.append(dict(layout=[2, 1], K=2, mode="cis", max_iters=1, tol=0.5, blacklist=False, vmax=2, concrete_positions=True, prior=[1, 2]))
    # positions symbolic as well (heavier non-linear queries): one small case
    out.append(dict(layout=[2], K=1, mode="genome", max_iters=1, tol=0.5, blacklist=False, vmax=3, concrete_positions=False))
    return out


def _conv_all(stats):
    c = stats["converged"]
    if hasattr(c, "items") and not isinstance(c, dict):
        return and_(*[x if isinstance(x, SBool) else bool(x) for x in c.items])
    return c


CHECKS = [
    Check("mask_set", _cases, masks_sym, masks_real, labels=("converged", "some_bin_filtered", "nothing_left", "dropped_by_mad_only"),
          doc="balance_cooler (genome-wide / cis / trans, <=2 sweeps) on symbolic symmetric pixel tables with solver-chosen ignore_diags, min_nnz, "
              "min_count, blacklist: in a converged run the NaN bins are exactly the union of the documented filters (or everything in a scope "
              "without data); every other bin has a finite positive weight",
          bounds=dict(quick="n<=3 bins, <=2 chromosomes, K=2 pixels with counts 1..3, 1-2 sweeps, tol in {0.5, 1e-5}, mad_max in {0, 1} (thorough: 2); pixel positions and counts "
                            "are enumerated by solver forks (the iteration is non-linear in them: z3 returns unknown otherwise), thresholds/options symbolic",
                      thorough="n<=4, K=3"),
          stubs=("weights as exact reals + NaN flag; sqrt as its defining constraint r>=0, r*r=x", "E3", "E4"),
          outside=("MAD-max with symbolic data (log/exp/median are evaluated on the enumerated concrete data only; a bin whose marginal lies on the "
                   "cut-off to 1e-9 is not asserted)", "flatness after iterating from an arbitrary start (float loop with data-dependent trip count)",
                   "status of a bin no filter hits whose own filtered marginal is zero"), timeout=3000, split_depth=7),
]

MUTANTS = [
    dict(name="MAD-max: per-chromosome normalisation lost", file="_balance.py", old="            marg[lo:hi] /= np.median(c_marg[c_marg > 0])",
         new="            c_marg = c_marg / np.median(c_marg[c_marg > 0])", checks=["mask_set"]),
    dict(name="MAD-max: cut-off on the wrong side", file="_balance.py", old="        bias[marg < cutoff] = 0", new="        bias[marg > cutoff] = 0", checks=["mask_set"]),
    dict(name="diagonal filter off by one (<=)", file="_balance.py", old='    mask = np.abs(pixels["bin1_id"] - pixels["bin2_id"]) < n_diags', new='    mask = np.abs(pixels["bin1_id"] - pixels["bin2_id"]) <= n_diags', checks=["mask_set"]),
    dict(name="min_nnz threshold <=", file="_balance.py", old="        bias[marg_nnz < min_nnz] = 0", new="        bias[marg_nnz <= min_nnz] = 0", checks=["mask_set"]),
    dict(name="min_count threshold <=", file="_balance.py", old="        bias[marg < min_count] = 0", new="        bias[marg <= min_count] = 0", checks=["mask_set"]),
    dict(name="NaN marking dropped (genome-wide)", file="_balance.py", old="    scale = nzmarg.mean()\n    bias[bias == 0] = np.nan\n    if rescale_marginals:\n        bias /= np.sqrt(scale)\n\n    return bias, scale, var\n\n\ndef _balance_cisonly",
         new="    scale = nzmarg.mean()\n    if rescale_marginals:\n        bias /= np.sqrt(scale)\n\n    return bias, scale, var\n\n\ndef _balance_cisonly", checks=["mask_set"]),
    dict(name="blacklist ignored", file="_balance.py", old="        bias[blacklist] = 0", new="        pass", checks=["mask_set"]),
    dict(name="cis mode counts trans pixels in the filters", file="_balance.py", old="    if cis_only:\n        base_filters.append(_zero_trans)", new="    if False:\n        base_filters.append(_zero_trans)", checks=["mask_set"]),
    dict(name="binarize missing in nnz filter", file="_balance.py", old="        filters = [_binarize, *base_filters]", new="        filters = [*base_filters]", checks=["mask_set"]),
]


# ---------------------------------------------------------------------------
# the command line's --blacklist: BED intervals -> the bins handed to balance_cooler
# ---------------------------------------------------------------------------
class _Captured(Exception):
    def __init__(self, blacklist):
        self.blacklist = blacklist


def cli_blacklist_body(env, p):
    """`cooler balance --blacklist regions.bed`: the bins excluded are exactly the bins that overlap an interval of the file, on its own
    chromosome. The interval is symbolic (stub: the frame read_csv returns for the three BED columns), the call into balance_cooler is
    intercepted and its `blacklist` argument is the observable; on the real side a real BED file is written and parsed."""
    import os
    from .common import scratch, scratch_file, env_pixels, vals
    from .model import concrete_bins
    env.reset()
    layout, kind = p["layout"], p["kind"]
    n = sum(layout)
    bins = concrete_bins(layout, kind)
    path = scratch_file("c10cli.cool")
    b1, b2, v = [0], [n - 1], [3]
    env.build_cooler(path, bins, b1, b2, {"count": v}, True)
    names = list(dict.fromkeys(bins["chrom"].tolist()))
    ci = env.choice("chrom", len(names))
    L = int(bins[bins["chrom"] == names[ci]]["end"].max())
    start, end = env.int("start", 0, L), env.int("end", 0, L)
    env.assume(start < end)
    starts, ends, chroms = bins["start"].tolist(), bins["end"].tolist(), bins["chrom"].tolist()
    env.cover("end_inside_a_bin", or_(*[and_(s < end, end < e) for c, s, e in zip(chroms, starts, ends) if c == names[ci]]))
    env.cover("inside_one_bin", or_(*[and_(s <= start, end <= e) for c, s, e in zip(chroms, starts, ends) if c == names[ci]]))
    env.cover("to_chromosome_end", end == L)
    bed = os.path.join(scratch(), "c10.bed")
    M = env.mod("cli.balance")
    if env.symbolic:
        open(bed, "w").write(f"{names[ci]}\t0\t1\n")
        sympd = env.pd
        frame = sympd.DataFrame({"chrom": [names[ci]], "start": env.array([start], "int64"), "end": env.array([end], "int64")})
        saved_pd = M.pd
        M.pd = type("pdproxy", (), {"__getattr__": lambda self, k: getattr(sympd, k), "read_csv": staticmethod(lambda *a, **kw: frame)})()
    else:
        # the interval twice: Python's csv.Sniffer takes the only line of a one-line file for a header (the command then stops with
        # "need at least one array to concatenate" - loud, and not a matter of this property)
        open(bed, "w").write(f"{names[ci]}\t{start}\t{end}\n" * 2)
    saved = M.balance_cooler

    def capture(clr, **kw):
        raise _Captured(kw.get("blacklist"))
    M.balance_cooler = capture
    try:
        M.balance.callback(cool_uri=path, nproc=1, chunksize=100, mad_max=0, min_nnz=0, min_count=0, blacklist=bed, ignore_diags=0, tol=1e-5,
                           cis_only=False, trans_only=False, max_iters=5, name="weight", force=True, check=False, stdout=False,
                           convergence_policy="store_final", ignore_dist=None)
        env.fail("the command did not reach balance_cooler")
    except _Captured as c:
        got = [x for x in vals(c.blacklist)] if c.blacklist is not None else None
    finally:
        M.balance_cooler = saved
        if env.symbolic:
            M.pd = saved_pd
    if got is None:
        env.fail("no blacklist was handed to balance_cooler although --blacklist was given")
    want = [and_(c == names[ci], s < end, e > start) for c, s, e in zip(chroms, starts, ends)]
    conds = []
    for k in range(n):
        listed = or_(*[g == k for g in got]) if got else False
        conds.append(listed == want[k] if env.symbolic else bool(listed) == bool(want[k]))
    env.check(and_(*conds), "the bins excluded by --blacklist are not exactly the bins overlapping the interval (on its chromosome)")
    return ["captured"]


cli_bl_sym, cli_bl_real = both(cli_blacklist_body)

CHECKS.append(Check("cli_blacklist", lambda tier: [dict(layout=[3, 2], kind="fixed"), dict(layout=[2, 3], kind="variable")] if tier == "quick" else
                    [dict(layout=[3, 2], kind="fixed"), dict(layout=[2, 3], kind="variable"), dict(layout=[4, 1, 3], kind="fixed"), dict(layout=[5], kind="variable")],
                    cli_bl_sym, cli_bl_real, labels=("end_inside_a_bin", "inside_one_bin", "to_chromosome_end"),
                    doc="cooler balance --blacklist: one BED interval with symbolic bounds on a solver-chosen chromosome; the bin ids handed to "
                        "balance_cooler are exactly the bins overlapping it (fixed- and variable-width tables)",
                    bounds=dict(quick="<=5 bins, 2 chromosomes, interval bounds anywhere in the chromosome", thorough="<=8 bins, 3 chromosomes"),
                    stubs=("E6-like: the frame read_csv returns for the three BED columns is symbolic; the real side parses a real file", "E3", "E4")))

MUTANTS += [
    dict(name="blacklist interval end taken one base short", file="cli/balance.py", old="(reg.chrom, reg.start, reg.end))", new="(reg.chrom, reg.start, reg.end - 1))", checks=["cli_blacklist"]),
    dict(name="blacklist interval looked up on the whole genome", file="cli/balance.py", old="(reg.chrom, reg.start, reg.end))", new="(reg.chrom, 0, reg.end))", checks=["cli_blacklist"]),
]
