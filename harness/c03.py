"""C03 - a 2-D range query equals the same slice of the full matrix."""
from __future__ import annotations

from .common import *  # noqa: F401,F403
from .common import (Check, OracleFailure, MockGroup, SymEnv, RealEnv, both, sym_pixels, csr_offsets, pixels_from_inputs,
                     uniform_bins, make_real_cooler, dense_ref, scratch_file, count_true)


# ---------------------------------------------------------------------------
# L1: the FillLower window planner, window coordinates unbounded
# ---------------------------------------------------------------------------
class _StubReader:
    """The reader replaced by its contract (discharged separately by check `reader`): called with
    (field, bbox, span, reflect) it emits every stored pixel (r, c) with span0 <= r < span1 and
    bbox.j0 <= c < bbox.j1, and additionally the mirror (c, r) when r != c and c < bbox.i1.
    One arbitrary stored pixel (r <= c) is tracked; the value column carries presence (0/1)."""

    def __init__(self, env, r, c):
        self.env, self.r, self.c = env, r, c

    def get_spans(self, bbox, chunksize):
        i0, i1, j0, j1 = bbox
        if (i1 - i0 < 1) or (j1 - j0 < 1):
            return []
        return [(i0, i1)]

    def __call__(self, field, bbox, span, reflect, return_index=False):
        i0, i1, j0, j1 = bbox
        s0, s1 = span
        r, c = self.r, self.c
        direct = and_(s0 <= r, r < s1, j0 <= c, c < j1)
        mirror = and_(direct, r != c, c < i1) if reflect else False
        return {"bin1_id": [r, c], "bin2_id": [c, r], field: [ite(direct, 1, 0), ite(mirror, 1, 0)]}


def planner_body(env, p):
    rq = env.mod("core._rangequery")
    i0, i1, j0, j1 = (env.int(k) for k in ("i0", "i1", "j0", "j1"))
    env.assume(and_(i0 <= i1, j0 <= j1, i0 >= 0, j0 >= 0))
    r, c = env.int("r", 0), env.int("c", 0)
    env.assume(r <= c)
    a, b = env.int("a"), env.int("b")
    q = rq.FillLowerRangeQuery2D(_StubReader(env, r, c), "count", (i0, i1, j0, j1), 1)
    got = 0
    for task in q.tasks:
        d = task[0](*task[1:])
        for x, y, m in zip(d["bin1_id"], d["bin2_id"], d["count"]):
            got = got + ite(and_(x == a, y == b), m, 0)
    inwin = and_(i0 <= a, a < i1, j0 <= b, b < j1)
    exp = ite(and_(inwin, or_(and_(a == r, b == c), and_(a == c, b == r))), 1, 0)
    env.cover("transposed", i1 > j1)
    env.cover("split", len(q.tasks) == 2)
    env.check(got == exp, "window planner: a stored pixel is emitted a wrong number of times into an output cell")
    return [len(q.tasks)]


planner_sym, planner_real = both(planner_body)


# ---------------------------------------------------------------------------
# L2: CSRReader.__call__ and get_spans on an arbitrary CSR table
# ---------------------------------------------------------------------------
def _table(env, n, K, upper):
    if env.symbolic:
        b1, b2, v = sym_pixels(n, K, upper)
    else:
        b1, b2, v = pixels_from_inputs(env.inputs, K)
    offs = csr_offsets(b1, n) if env.symbolic else [sum(1 for x in b1 if x < k) for k in range(n + 1)]
    grp = {"bin1_id": env.array(b1, "int64"), "bin2_id": env.array(b2, "int64"), "count": env.array(v, "int32")}
    return b1, b2, v, grp, env.array(offs, "int64")


def reader_body(env, p):
    rq = env.mod("core._rangequery")
    n, K = p["n"], p["K"]
    b1, b2, v, grp, offs = _table(env, n, K, True)
    reader = rq.CSRReader(grp, offs)
    i0, i1, j0, j1 = (env.int(k, 0, n) for k in ("i0", "i1", "j0", "j1"))
    s0, s1 = env.int("s0", 0, n), env.int("s1", 0, n)
    env.assume(and_(i0 <= s0, s0 <= s1, s1 <= i1, j0 <= j1))
    reflect = bool(env.bool("reflect"))
    out = reader("count", (i0, i1, j0, j1), (s0, s1), reflect, True)
    R, C, V, IX = (list(out[k]) for k in ("bin1_id", "bin2_id", "count", "__index"))
    sel = [p_ for p_ in range(K) if bool(and_(s0 <= b1[p_], b1[p_] < s1, j0 <= b2[p_], b2[p_] < j1))]
    mir = [p_ for p_ in sel if bool(and_(b1[p_] != b2[p_], b2[p_] < i1))] if reflect else []
    eR = [b1[q] for q in sel] + [b2[q] for q in mir]
    eC = [b2[q] for q in sel] + [b1[q] for q in mir]
    eV = [v[q] for q in sel] + [v[q] for q in mir]
    eI = sel + mir
    env.cover("mirrored", len(mir) > 0)
    env.cover("filtered", len(sel) < K)
    if len(R) != len(eR):
        env.fail(f"reader emitted {len(R)} records, expected {len(eR)}")
    else:
        env.check(and_(*[and_(x == ex, y == ey, z == ez, w == ew) for x, y, z, w, ex, ey, ez, ew in
                         zip(R, C, V, IX, eR, eC, eV, eI)]),
                  "reader: emitted records differ from the stored records inside the box (order, mirror or index)")
    return [R, C, V, IX]


reader_sym, reader_real = both(reader_body)


def spans_body(env, p):
    """get_spans tiles every row of [i0, i1) exactly once for every chunk size"""
    rq = env.mod("core._rangequery")
    n, K = p["n"], p["K"]
    b1, b2, v, grp, offs = _table(env, n, K, True)
    reader = rq.CSRReader(grp, offs)
    i0, i1, j0, j1 = (env.int(k, 0, n) for k in ("i0", "i1", "j0", "j1"))
    env.assume(and_(i0 <= i1, j0 <= j1))
    cs = env.int("chunksize", 1, K + 1)
    spans = reader.get_spans((i0, i1, j0, j1), cs)
    empty = or_(i1 - i0 < 1, j1 - j0 < 1)
    env.cover("several_spans", len(spans) > 1)
    if len(spans) == 0:
        # acceptable only when the box is empty or holds no stored row at all
        env.check(or_(empty, offs[i0] == offs[i1]),
                  "get_spans returned no span for a box that contains stored pixels")
    else:
        # consecutive, strictly increasing, starting at i0; rows after the last span must be empty
        # (trailing empty rows are legitimately dropped by the searchsorted-left on the last cut)
        conds = [spans[0][0] == i0, spans[-1][1] <= i1, offs[spans[-1][1]] == offs[i1]]
        for (a0, a1), (c0, c1) in zip(spans[:-1], spans[1:]):
            conds.append(a1 == c0)
        for (a0, a1) in spans:
            conds.append(a0 < a1)
        env.check(and_(*conds), "get_spans: spans do not cover every stored row of [i0, i1) exactly once")
    return []  # the number of spans depends on linspace rounding (stub E1): not an observable


def _sel(arr, i):
    return arr[i]


spans_sym, spans_real = both(spans_body)


# ---------------------------------------------------------------------------
# L3: api.matrix end to end (dense / sparse), both storage modes, any chunk size
# ---------------------------------------------------------------------------
def _expected_cell(b1, b2, v, A, B, upper):
    terms = []
    for r, c, x in zip(b1, b2, v):
        m = or_(and_(r == A, c == B), and_(r == B, c == A)) if upper else and_(r == A, c == B)
        terms.append(ite(m, x, 0))
    return ssum(terms)


def query_sym(p):
    env = SymEnv()
    api = env.mod("api")
    n, K, upper, sparse = p["n"], p["K"], p["upper"], p["sparse"]
    b1, b2, v = sym_pixels(n, K, upper, vlo=p.get("vlo", 1), vhi=p.get("vhi", 9))
    offs = csr_offsets(b1, n)
    h5 = MockGroup({"pixels": {"bin1_id": SArr(b1, "int64"), "bin2_id": SArr(b2, "int64"), "count": SArr(v, "int32")},
                    "indexes": {"bin1_offset": SArr(offs, "int64")}, "bins": {}})
    i0, i1, j0, j1 = (sym_int(k, 0, n) for k in ("i0", "i1", "j0", "j1"))
    assume(and_(i0 <= i1, j0 <= j1))
    cs = sym_int("chunksize", 1, K + 1)
    out = api.matrix(h5, i0, i1, j0, j1, "count", False, sparse, False, False, True, False, cs, upper)
    if sparse:
        rows, cols = list(out.row), list(out.col)
        prove(and_(*[not_(and_(rows[k] == rows[l], cols[k] == cols[l])) for k in range(len(rows)) for l in range(k)]),
              "sparse output lists an element twice")
        prove(and_(*[and_(0 <= x, x < i1 - i0, 0 <= y, y < j1 - j0) for x, y in zip(rows, cols)]),
              "sparse output has a coordinate outside the window")
        arr = out.toarray()
    else:
        arr = out
    nr, nc = arr.shape
    prove(and_(nr == i1 - i0, nc == j1 - j0), "output shape differs from the window")
    cover("below_diagonal", i0 > j1)
    cover("straddles", and_(i0 < j1, j0 < i1, i0 != j0))
    cover("nested", and_(j0 < i0, i1 < j1))
    cover("nonzero_cell", or_(*[x != 0 for x in arr.items]) if arr.items else False)
    conds = []
    for a in range(nr):
        for b in range(nc):
            conds.append(arr[a, b] == _expected_cell(b1, b2, v, i0 + a, j0 + b, upper))
    prove(and_(*conds), "range query differs from the same slice of the full matrix")
    return arr


def query_real(p, inputs):
    import cooler
    import numpy as np
    n, K, upper, sparse = p["n"], p["K"], p["upper"], p["sparse"]
    b1, b2, v = pixels_from_inputs(inputs, K)
    path = make_real_cooler(scratch_file(), uniform_bins([n]), b1, b2, v, symmetric_upper=upper)
    i0, i1, j0, j1 = (inputs[k] for k in ("i0", "i1", "j0", "j1"))
    clr = cooler.Cooler(path)
    out = clr.matrix(balance=False, sparse=sparse, chunksize=inputs["chunksize"])[i0:i1, j0:j1]
    if sparse:
        pairs = list(zip(out.row.tolist(), out.col.tolist()))
        if len(set(pairs)) != len(pairs):
            raise OracleFailure("sparse output lists an element twice")
        out = out.toarray()
    ref = dense_ref(n, b1, b2, v, upper)[i0:i1, j0:j1]
    if out.shape != ref.shape or not np.array_equal(out, ref):
        raise OracleFailure(f"matrix[{i0}:{i1},{j0}:{j1}] = {out.tolist()} but full-matrix slice = {ref.tolist()}")
    return out


def _qcases(tier):
    out = []
    sizes = [(2, 2), (3, 2)] if tier == "quick" else [(2, 2), (3, 2), (3, 3), (4, 3)]
    for n, K in sizes:
        for upper in (True, False):
            for sparse in (False, True):
                out.append(dict(n=n, K=K, upper=upper, sparse=sparse))
    # signed values (differences, log-ratios): zero and negative entries are values like any other
    out.append(dict(n=3, K=2, upper=True, sparse=False, vlo=-2, vhi=2))
    out.append(dict(n=3, K=2, upper=True, sparse=True, vlo=-2, vhi=2))
    return out


# ---------------------------------------------------------------------------
# L3, pixel-table output: exactly the stored records inside the window, in storage order, labelled with their pixel ids
# ---------------------------------------------------------------------------
def pixels_sym(p):
    from engine import symh5
    symh5.reset()
    from .model import concrete_bins, build_cooler_sym
    from .common import symcooler
    sc = symcooler()
    n, K, upper = p["n"], p["K"], p["upper"]
    b1, b2, v = sym_pixels(n, K, upper)
    path = scratch_file("c03p.cool")
    build_cooler_sym(path, concrete_bins([n], "even"), b1, b2, {"count": v}, upper)
    i0, i1, j0, j1 = (sym_int(k, 0, n) for k in ("i0", "i1", "j0", "j1"))
    assume(and_(i0 <= i1, j0 <= j1))
    cs = sym_int("chunksize", 1, K + 1)
    keep_index = bool(sym_bool("keep_index"))
    clr = sc.Cooler(path)
    out = clr.matrix(balance=False, as_pixels=True, ignore_index=not keep_index, chunksize=cs)[i0:i1, j0:j1]
    sel = [q for q in range(K) if bool(and_(i0 <= b1[q], b1[q] < i1, j0 <= b2[q], b2[q] < j1))]
    cover("below_diagonal_window", i1 > j1)
    cover("several_selected", len(sel) > 1)
    R, C, V = list(out["bin1_id"].values), list(out["bin2_id"].values), list(out["count"].values)
    if len(R) != len(sel):
        prove(False, f"pixel output has {len(R)} rows, {len(sel)} stored records lie inside the window")
        return None
    prove(and_(*[and_(R[t] == b1[q], C[t] == b2[q], V[t] == v[q]) for t, q in enumerate(sel)]),
          "pixel output is not the stored records inside the window in storage order")
    idx = list(out.index.arr.items) if hasattr(out.index, "arr") else list(out.index)
    if keep_index:
        prove(and_(*[lab == q for lab, q in zip(idx, sel)]), "pixel output is not labelled with the records' pixel ids")
    return dict(r=R, c=C, v=V, idx=idx if keep_index else None)


def pixels_real(p, inputs):
    import cooler
    from .model import concrete_bins, build_cooler_real
    n, K, upper = p["n"], p["K"], p["upper"]
    b1, b2, v = pixels_from_inputs(inputs, K)
    path = scratch_file("c03p.cool")
    build_cooler_real(path, concrete_bins([n], "even"), b1, b2, {"count": v}, upper)
    i0, i1, j0, j1 = (inputs[k] for k in ("i0", "i1", "j0", "j1"))
    keep_index = bool(inputs["keep_index"])
    out = cooler.Cooler(path).matrix(balance=False, as_pixels=True, ignore_index=not keep_index, chunksize=inputs["chunksize"])[i0:i1, j0:j1]
    sel = [q for q in range(K) if i0 <= b1[q] < i1 and j0 <= b2[q] < j1]
    got = list(zip(out["bin1_id"].tolist(), out["bin2_id"].tolist(), out["count"].tolist()))
    if got != [(b1[q], b2[q], v[q]) for q in sel]:
        raise OracleFailure(f"as_pixels window [{i0}:{i1},{j0}:{j1}] returned {got}, stored records inside are {[(b1[q], b2[q], v[q]) for q in sel]}")
    if keep_index and out.index.tolist() != sel:
        raise OracleFailure(f"as_pixels(ignore_index=False) labels {out.index.tolist()}, pixel ids are {sel}")
    return dict(r=out["bin1_id"].tolist(), c=out["bin2_id"].tolist(), v=out["count"].tolist(), idx=out.index.tolist() if keep_index else None)


# ---------------------------------------------------------------------------
# slice spellings: _process_slice against Python's own slice resolution
# ---------------------------------------------------------------------------
def slice_body(env, p):
    sel = env.mod("core._selectors")
    mix = sel._IndexingMixin()
    n = env.int("n", 0, p["nmax"])
    kind = p["kind"]
    f10 = known_active("F10-C03")  # known finding: out-of-range / reversed bounds are not clamped
    if kind == "scalar":
        s = env.int("s")
        if f10:
            env.assume(s >= -n)
        lo, hi = -n, n  # valid scalar range for arrays
        try:
            i0, i1 = mix._process_slice(s, n)
        except IndexError:
            env.check(or_(s < -n, s >= n), "scalar index inside the range was refused")
            return ["raises", "IndexError"]
        env.check(and_(s >= -n, s < n), "scalar index outside [-n, n) was accepted (arrays raise IndexError)")
        env.check(and_(i0 == ite(s < 0, s + n, s), i1 == i0 + 1), "scalar index does not select its one-element range")
        return [i0, i1]
    a = None if p["a_none"] else env.int("a")
    b = None if p["b_none"] else env.int("b")
    if f10:
        ra = 0 if a is None else ite(a < 0, a + n, a)
        rb = n if b is None else ite(b < 0, b + n, b)
        env.assume(and_(0 <= ra, ra <= n, 0 <= rb, rb <= n, ra <= rb))
    i0, i1 = mix._process_slice(slice(a, b), n)
    # Python / numpy resolution of slice(a, b) on a length-n axis
    def clamp(x, default):
        if x is None:
            return default
        x2 = ite(x < 0, x + n, x)
        return ite(x2 < 0, 0, ite(x2 > n, n, x2))
    elo, ehi = clamp(a, 0), clamp(b, n)
    ehi = ite(ehi < elo, elo, ehi)
    env.cover("negative", (a < 0) if a is not None else False)
    env.cover("open_end", b is None)
    env.check(and_(i0 == elo, i1 == ehi),
              "slice bounds are not resolved as for arrays (rows selected differ from range(*slice.indices(n)))")
    return [i0, i1]


slice_sym, slice_real = both(slice_body)


def _slice_cases(tier):
    nmax = 6 if tier == "quick" else 40
    out = [dict(kind="scalar", nmax=nmax)]
    for an in (False, True):
        for bn in (False, True):
            out.append(dict(kind="slice", a_none=an, b_none=bn, nmax=nmax))
    return out


CHECKS = [
    Check("planner", lambda tier: [dict()], planner_sym, planner_real,
          doc="FillLowerRangeQuery2D.__init__ case split, reader replaced by its contract, coordinates unbounded",
          labels=("transposed", "split"), bounds=dict(window="unbounded non-negative integers", pixel="one arbitrary stored pixel r<=c"),
          stubs=("reader contract (discharged by check `reader`)",)),
    Check("reader", lambda tier: [dict(n=n, K=K) for n, K in ([(2, 2), (3, 2)] if tier == "quick" else [(2, 2), (3, 3), (4, 3)])],
          reader_sym, reader_real, labels=("mirrored", "filtered"),
          doc="CSRReader.__call__ on an arbitrary CSR table, any bbox/row span/reflect, index column included",
          bounds=dict(quick="n<=3 bins, K<=2 pixels", thorough="n<=4, K<=3")),
    Check("spans", lambda tier: [dict(n=n, K=K) for n, K in ([(3, 2), (3, 3)] if tier == "quick" else [(3, 3), (4, 4), (5, 4)])],
          spans_sym, spans_real, labels=("several_spans",),
          doc="get_spans/arg_prune_partition tile the row range for every chunk size and every linspace rounding",
          stubs=("E1 np.linspace(dtype=int): arbitrary non-decreasing integers with exact end points",),
          bounds=dict(quick="n<=3, K<=3, chunksize 1..K+1", thorough="n<=5, K<=4")),
    Check("query", _qcases, query_sym, query_real, labels=("below_diagonal", "straddles", "nested", "nonzero_cell"),
          doc="api.matrix dense/sparse == slice of the full matrix (symmetric completion / as stored), any chunk size",
          stubs=("E1 np.linspace", "E5 scipy.sparse.coo_matrix.toarray sums duplicates", "dict-backed HDF5 group"),
          bounds=dict(quick="n<=3, K<=2, all windows, chunksize 1..K+1", thorough="n<=4, K<=3"), timeout=3000, split_depth=7),
    Check("pixel_output", lambda tier: [dict(n=n, K=K, upper=u) for n, K in ([(3, 2)] if tier == "quick" else [(3, 2), (3, 3), (4, 3)]) for u in (True, False)],
          pixels_sym, pixels_real, labels=("below_diagonal_window", "several_selected"),
          doc="Cooler.matrix(as_pixels=True) with and without the pixel-id index, both storage modes, any window and chunk size, on a cooler in the "
              "in-memory HDF5 model: exactly the stored records inside the window, in storage order, labelled with their pixel ids",
          bounds=dict(quick="n=3, K=2", thorough="n<=4, K<=3"), stubs=("E1", "E3", "E4"), timeout=2400, split_depth=7),
    Check("slices", _slice_cases, slice_sym, slice_real, labels=("negative", "open_end"),
          doc="_process_slice against Python's slice resolution; axis length symbolic, bounds unbounded",
          bounds=dict(quick="axis length <= 6, slice bounds unbounded integers or None", thorough="axis length <= 40")),
]


# ---------------------------------------------------------------------------
# the store given as file path, URI or open HDF5 handle; several collections of one file queried in one process
# ---------------------------------------------------------------------------
def store_forms_body(env, p):
    """Two collections with the same bins and different pixel tables live in one file: /a (symbolic records) and /b/deep (fixed
    records). Each is opened by URI (both leading-slash spellings) and by open handle, interleaved, and queried with one window in
    dense, sparse and pixel form: every answer is the slice of *that* collection's matrix (nothing learnt from one collection may
    be applied to the other)."""
    from .model import concrete_bins
    from .common import env_pixels, vals
    env.reset()
    n, K, upper = p["n"], p["K"], p["upper"]
    bins = concrete_bins([n], "even")
    path = scratch_file("c03s.cool")
    tabs = {"/a": env_pixels(env, n, K, upper, prefix="a"), "/b/deep": ([0, 1], [1, 1], [5, 6])}
    env.build_cooler(path, bins, *tabs["/a"][:2], {"count": tabs["/a"][2]}, upper, group="/a", mode="w")
    env.build_cooler(path, bins, *tabs["/b/deep"][:2], {"count": tabs["/b/deep"][2]}, upper, group="/b/deep", mode="a")
    i0, i1, j0, j1 = (env.int(k, 0, n) for k in ("i0", "i1", "j0", "j1"))
    env.assume(and_(i0 <= i1, j0 <= j1))
    if env.symbolic:
        # the window is enumerated by solver forks (every window of the axis); the stored records stay symbolic
        i0, i1, j0, j1 = (concretize(x) for x in (i0, i1, j0, j1))
    cs = 10     # one read chunk: chunk-size independence is the subject of `query`/`pixel_output`; here every query would add its own free partition
    f = env.h5.File(path, "r")
    obs = []
    order = [("/a", path + "::/a"), ("/b/deep", path + "::b/deep"), ("/a", f["a"]), ("/b/deep", f["/b/deep"])]
    for grp, store in order:
        b1, b2, v = tabs[grp]
        clr = env.cooler.Cooler(store)
        what = f"{grp} opened by {'handle' if not isinstance(store, str) else 'URI'}"
        dense = clr.matrix(balance=False, chunksize=cs)[i0:i1, j0:j1]
        nr, nc = dense.shape
        env.check(and_(nr == i1 - i0, nc == j1 - j0), f"{what}: output shape differs from the window")
        outs = [dense]
        if p["sparse"]:
            outs.append(clr.matrix(balance=False, sparse=True, chunksize=cs)[i0:i1, j0:j1].toarray())
        conds = []
        for a in range(nr):
            for b in range(nc):
                e = _expected_cell(b1, b2, v, i0 + a, j0 + b, upper) if env.symbolic else int(dense_ref(n, b1, b2, v, upper)[i0 + a, j0 + b])
                conds.extend(o[a, b] == e for o in outs)
        env.check(and_(*conds), f"{what}: range query differs from the slice of that collection's matrix")
        px = clr.matrix(balance=False, as_pixels=True, chunksize=cs)[i0:i1, j0:j1]
        sel = [q for q in range(len(b1)) if bool(and_(i0 <= b1[q], b1[q] < i1, j0 <= b2[q], b2[q] < j1))]
        R, C, V = vals(px["bin1_id"]), vals(px["bin2_id"]), vals(px["count"])
        if len(R) != len(sel):
            env.fail(f"{what}: pixel output has {len(R)} rows, {len(sel)} stored records of that collection lie inside the window")
        env.check(and_(*[and_(R[t] == b1[q], C[t] == b2[q], V[t] == v[q]) for t, q in enumerate(sel)]),
                  f"{what}: pixel output is not that collection's stored records inside the window")
        obs.append([R, V])
    f.close()
    return obs


store_sym, store_real = both(store_forms_body)

CHECKS.append(Check("store_forms", lambda tier: [dict(n=3, K=1, upper=True, sparse=False), dict(n=3, K=1, upper=False, sparse=True)] if tier == "quick" else
                    [dict(n=3, K=K, upper=u, sparse=sp) for K in (1, 2) for u in (True, False) for sp in (False, True)],
                    store_sym, store_real,
                    doc="the store given as URI (both slash spellings) or open HDF5 handle; two collections with the same bins and different pixels in "
                        "one file, queried interleaved in one process: dense, sparse and pixel output of each is the slice of its own matrix",
                    bounds=dict(quick="n=3 bins, K=1 symbolic pixel in one collection, two fixed pixels in the other, every window, one read chunk", thorough="K<=2"),
                    stubs=("E1", "E3 in-memory h5py model (every path replayed on real h5py)", "E4", "E5"), timeout=2400, split_depth=6))
