"""C17 - every cell of a single-cell file reads back as the matrix given for it."""
from __future__ import annotations

import numpy as np

from .common import *  # noqa: F401,F403
from .common import Check, OracleFailure, SymEnv, RealEnv, both, scratch_file, env_pixels, vals
from .model import concrete_bins, validity_sym, validity_real


def scool_body(env, p):
    env.reset()
    co = env.cooler
    layout, Ks, per_cell = p["layout"], p["Ks"], p["per_cell_bins"]
    n = sum(layout)
    names = p["names"][:len(Ks)]
    bins0 = concrete_bins(layout, p["kind"])
    if p.get("chrom_names"):
        # chromosome names whose given order is not the lexicographic one
        bins0["chrom"] = bins0["chrom"].map({f"c{i}": nm for i, nm in enumerate(p["chrom_names"])})
    chrom_order = list(dict.fromkeys(bins0["chrom"].tolist()))
    chrom_len = [int(bins0[bins0["chrom"] == nm]["end"].max()) for nm in chrom_order]
    pd = env.pd
    cells, binsd, extra = {}, {}, {}
    for i, (nm, K) in enumerate(zip(names, Ks)):
        b1, b2, v = env_pixels(env, n, K, prefix=f"{nm}_")
        cells[nm] = (b1, b2, v)
        if per_cell:
            w = [env.int(f"{nm}_w{k}", 0, 9) for k in range(n)]
            extra[nm] = w
            colsd = {"chrom": bins0["chrom"].tolist(), "start": env.array(bins0["start"].tolist(), "int64"),
                     "end": env.array(bins0["end"].tolist(), "int64"), "w": env.array(w, "int64")}
            order = ["chrom", "start", "w", "end"] if p.get("extra_in_middle") else ["chrom", "start", "end", "w"]
            if p.get("bin_labels") and i > 0:
                # a later cell's table carries row labels that are not 0..n-1 in order (a frame re-sorted or sliced without
                # reset_index): the rows are still given in bin order, and positions - not labels - are what counts
                lab = np.arange(n)[::-1].copy() if p["bin_labels"] == "reversed" else np.arange(n) + 5
                binsd[nm] = pd.DataFrame({k: colsd[k] for k in order}, index=lab)
            else:
                binsd[nm] = pd.DataFrame({k: colsd[k] for k in order})
    fl = p.get("float_counts")
    if fl:
        # counts given as halves, stored through dtypes={"count": float}: the user's dtype must win over the default int32
        cells = {nm: (c[0], c[1], [x / 2 for x in c[2]]) for nm, c in cells.items()}
    pixd = {nm: pd.DataFrame({"bin1_id": env.array(c[0], "int64"), "bin2_id": env.array(c[1], "int64"),
                              "count": env.array(c[2], "float64" if fl else "int32")})
            for nm, c in cells.items()}
    path = scratch_file("c17.scool")
    co.create_scool(path, binsd if per_cell else (pd.DataFrame(bins0) if env.symbolic else bins0), pixd, ordered=True,
                    **({"dtypes": {"count": "float64"}} if fl else {}))
    fo = co.fileops
    env.cover("empty_cell", any(K == 0 for K in Ks))
    env.cover("several_cells", len(Ks) > 1)
    env.check(fo.is_scool_file(path), "file is not recognised as a single-cell file")
    listing = fo.list_scool_cells(path)
    env.check(len(listing) == len(names) and sorted(listing) == sorted("/cells/" + nm for nm in names),
              f"cell listing {listing} differs from the cell names given {names}")
    obs = {}
    f = env.h5.File(path, "r")
    for nm in names:
        uri = path + "::/cells/" + nm
        c = co.Cooler(uri)
        tab = c.pixels()[:]
        b1, b2, v = cells[nm]
        if len(tab) != len(b1):
            env.fail(f"cell {nm}: {len(tab)} pixels read back, {len(b1)} given")
        else:
            env.check(and_(*[and_(vals(tab["bin1_id"])[q] == b1[q], vals(tab["bin2_id"])[q] == b2[q], vals(tab["count"])[q] == v[q]) for q in range(len(b1))]),
                      f"cell {nm} does not read back as the pixel table supplied for it (mix-up between cells?)")
        obs[nm] = [vals(tab["bin1_id"]), vals(tab["bin2_id"]), vals(tab["count"])]
        if not p.get("float_counts"):
            # each cell is a schema-valid collection (C02 for the single-cell producer)
            if env.symbolic:
                for cond, msg in validity_sym(path, "/cells/" + nm):
                    env.check(cond, f"cell {nm}: " + msg)
            else:
                validity_real(path, "/cells/" + nm)
        env.check(list(c.chromnames) == chrom_order and [int(x) for x in vals(c.chromsizes)] == chrom_len,
                  f"cell {nm}: chromosome names / lengths {list(c.chromnames)} are not those of the bin table in its order {chrom_order}")
        bt = c.bins()[:]
        env.check([str(x) for x in vals(bt["chrom"])] == bins0["chrom"].tolist(), f"cell {nm}: chromosome column of the bin table changed")
        env.check(and_(*[a == b for a, b in zip(vals(bt["start"]), bins0["start"].tolist())], *[a == b for a, b in zip(vals(bt["end"]), bins0["end"].tolist())]),
                  "cell does not read over the common bin table")
        for col in ("chrom", "start", "end"):
            a, b = f[f"cells/{nm}/bins/{col}"], f[f"bins/{col}"]
            same = (a.id.node is b.id.node) if env.symbolic else (a == b)
            env.check(bool(same), f"bins/{col} of cell {nm} is not the shared root column (stored once)")
        if per_cell:
            if "w" not in list(bt.columns):
                env.fail(f"per-cell bin column 'w' of {nm} is missing from the cell's bin table (columns {list(bt.columns)})")
                return None
            env.check(and_(*[a == b for a, b in zip(vals(bt["w"]), extra[nm])]), f"per-cell bin column of {nm} not kept for that cell")
    f.close()
    return obs


scool_sym, scool_real = both(scool_body)


def _cases(tier):
    out = []
    specs = [((2,), "fixed", (1,)), ((2, 1), "variable", (1, 0)), ((2,), "fixed", (1, 1, 1))] if tier == "quick" else \
            [((2,), "fixed", (1,)), ((2, 1), "variable", (2, 0)), ((2,), "fixed", (1, 1, 1)), ((3,), "even", (2, 2)), ((2, 2), "fixed", (0, 2, 1)),
             ((3,), "fixed", (3, 2)), ((2, 2), "variable", (2, 2, 2)), ((4,), "even", (3, 1, 0))]
    for layout, kind, Ks in specs:
        for per_cell in (False, True):
            out.append(dict(layout=list(layout), kind=kind, Ks=list(Ks), per_cell_bins=per_cell, names=["b2", "a3", "c1"]))
    out.append(dict(layout=[2], kind="fixed", Ks=[1, 1], per_cell_bins=True, names=["b2", "a3", "c1"], extra_in_middle=True))
    for per_cell in (False, True):
        out.append(dict(layout=[1, 2], kind="fixed", Ks=[1, 1], per_cell_bins=per_cell, names=["b2", "a3", "c1"], chrom_names=["chr2", "chr10"]))
    out.append(dict(layout=[2], kind="fixed", Ks=[2, 1], per_cell_bins=False, names=["b2", "a3", "c1"], float_counts=True))
    # arbitrary cell names: names that differ only by leading zeros of an embedded number, a name that is a prefix of another, digits only
    out.append(dict(layout=[2], kind="fixed", Ks=[1, 1, 0], per_cell_bins=False, names=["c7", "c07", "c007"]))
    out.append(dict(layout=[2], kind="fixed", Ks=[1, 1, 1], per_cell_bins=True, names=["1", "01", "1_1"]))
    # per-cell bin tables whose row labels are not the default 0..n-1
    for lab in ("reversed", "shifted"):
        out.append(dict(layout=[2, 1], kind="fixed", Ks=[1, 1], per_cell_bins=True, names=["b2", "a3", "c1"], bin_labels=lab))
    return out


CHECKS = [
    Check("scool", _cases, scool_sym, scool_real, labels=("empty_cell", "several_cells"),
          doc="create_scool with 1-3 cells, symbolic per-cell pixel tables (empty allowed), one common bin table or per-cell bin tables with a symbolic "
              "extra column: each cell reads back its own table over the common bins, bins/{chrom,start,end} are the root's objects, per-cell columns kept, "
              "listing == names, recognised as scool",
          bounds=dict(quick="<=3 cells, <=1 pixel each, n<=3 bins", thorough="<=3 cells, <=3 pixels each, n<=4"),
          stubs=("E3 in-memory h5py model (hard links share the storage node)", "E4"), outside=("cell names containing '/'",), timeout=2400, split_depth=6),
]

MUTANTS = [
    dict(name="cells written under the wrong name", file="create/_create.py", old='            cool_uri + "::/cells/" + cell_name,\n            bins_dict[key],\n            cell_name_pixels_dict[key],',
         new='            cool_uri + "::/cells/" + cell_name,\n            bins_dict[key],\n            cell_name_pixels_dict[cell_names[0]],', checks=["scool"]),
    dict(name="bins copied instead of linked", file="create/_create.py", old='            dst[dst_group]["bins/start"] = src["bins/start"]', new='            src.copy("bins/start", dst[dst_group], "bins/start")', checks=["scool"]),
    dict(name="per-cell columns taken from the first cell", file="create/_create.py", old="            bins_dict[key],\n            cell_name_pixels_dict[key],", new="            bins_dict[sorted(bins_dict)[0]],\n            cell_name_pixels_dict[key],", checks=["scool"]),
    dict(name="ncells check: scool magic missing", file="create/_create.py", old='        info["format"] = MAGIC_SCOOL', new='        info["format"] = MAGIC', checks=["scool"]),
]
