"""C20 - generated bin tables tile the genome; a reported bin size is always true."""
from __future__ import annotations

import numpy as np

from .common import *  # noqa: F401,F403
from .common import Check, OracleFailure, SymEnv, RealEnv, both, layouts
from .model import sym_bins, bins_frame, real_widths, _fixed_form


def _pd(env):
    if env.symbolic:
        from engine import sympd
        return sympd
    import pandas
    return pandas


def _col(series):
    v = series.values if hasattr(series, "values") else series
    return list(v)


# ---------------------------------------------------------------------------
def binnify_body(env, p):
    util = env.mod("util")
    pd = _pd(env)
    b, nch, maxbins = p["b"], p["nchroms"], p["maxbins"]
    names = [f"c{i}" for i in range(nch)]
    if p.get("names") == "unsorted":
        names = names[::-1]       # the given order is not the lexicographic one: it must be kept
    lens = [env.int(f"L{i}", 1, min(maxbins * b, p.get("lmax", maxbins * b))) for i in range(nch)]
    # dtype int32 is what Cooler.chromsizes hands out: re-binning a cooler's own chromosome table must not depend on that width
    cs = pd.Series(env.array(lens, p.get("dtype", "int64")), index=names)
    out = util.binnify(cs, b)
    chrom = out["chrom"]
    codes = _col(chrom.cat.codes) if hasattr(chrom, "cat") else None
    starts, ends = _col(out["start"]), _col(out["end"])
    env.cover("multiple_of_width", or_(*[L % b == 0 for L in lens]))
    env.cover("shorter_than_width", or_(*[L < b for L in lens]))
    # expected: per chromosome ceil(L/b) bins [k*b, min((k+1)*b, L))
    nb = [concretize((L + b - 1) // b) if env.symbolic else (L + b - 1) // b for L in lens]
    if len(starts) != sum(nb):
        env.fail(f"binnify produced {len(starts)} bins, expected {sum(nb)}")
        return None
    conds = []
    i = 0
    for ci, L in enumerate(lens):
        for k in range(nb[ci]):
            hi = (k + 1) * b
            conds.append(and_(codes[i] == ci, starts[i] == k * b, ends[i] == ite(L < hi, L, hi) if env.symbolic else ends[i] == min(L, hi)))
            i += 1
    env.check(and_(*conds), "binnify: bins are not [k*w, min((k+1)*w, length)) per chromosome in order")
    env.check(list(chrom.cat.categories) == names, "binnify: chromosome order changed")
    return dict(chrom=codes, start=starts, end=ends)


binnify_sym, binnify_real = both(binnify_body)


def _binnify_cases(tier):
    out = []
    for b in ((1, 2, 3) if tier == "quick" else (1, 2, 3, 4, 5, 7, 8, 10, 16, 100, 1000, 10**6, 2**31 - 1, 2**31, 3 * 10**9)):
        for nch in ((1, 2) if tier == "quick" else (1, 2, 3, 4)):
            out.append(dict(b=b, nchroms=nch, maxbins=3 if tier == "quick" else (8 if nch < 3 else 4)))
    out.append(dict(b=2, nchroms=3, maxbins=2, names="unsorted"))
    # lengths in a narrow integer type, chromosomes close to the limit of that type (the last bin's nominal end exceeds it)
    out.append(dict(b=10**9, nchroms=1, maxbins=3, dtype="int32", lmax=2**31 - 1))
    out.append(dict(b=2**30, nchroms=2, maxbins=2, dtype="int32", lmax=2**31 - 1))
    out.append(dict(b=20000, nchroms=1, maxbins=2, dtype="int16", lmax=2**15 - 1))
    out.append(dict(b=2**31, nchroms=1, maxbins=2, dtype="uint32", lmax=2**32 - 1))
    return out


# ---------------------------------------------------------------------------
def binsize_body(env, p):
    util = env.mod("util")
    pd = _pd(env)
    layout, wmax = p["layout"], p["wmax"]
    if env.symbolic:
        bins, widths = sym_bins(layout, wmax)
    else:
        widths = real_widths(env.inputs, layout)
        bins = bins_frame(layout, widths, pd)
    got = util.get_binsize(bins)
    starts, ends = _col(bins["start"]), _col(bins["end"])
    chrom = [ci for ci, nb in enumerate(layout) for _ in range(nb)]
    flat = [w for ws in widths for w in ws]
    env.cover("long_last_bin", or_(*[ws[-1] > ws[0] for ws in widths if len(ws) > 1]) if any(len(ws) > 1 for ws in widths) else False)
    env.cover("reports_size", got is not None)
    if got is None:
        # not claimed by the property, but a uniform multi-bin table should be recognised: checked as a sanity obligation
        if any(len(ws) > 1 for ws in widths):
            uniform = and_(*[and_(*[w == widths[[i for i, x in enumerate(widths) if len(x) > 1][0]][0] for w in ws[:-1]]) for ws in widths],
                           *[ws[-1] <= widths[[i for i, x in enumerate(widths) if len(x) > 1][0]][0] for ws in widths])
            env.check(not_(uniform), "get_binsize returned None for a fixed-width table")
        return [None]
    env.check(_fixed_form(starts, ends, chrom, got), "get_binsize reports a size although some bin is not [k*b, min((k+1)*b, length))")
    return [got]


binsize_sym, binsize_real = both(binsize_body)


def _binsize_cases(tier):
    if tier == "quick":
        return [dict(layout=list(l), wmax=3) for l in layouts(2, 4)]
    return [dict(layout=list(l), wmax=5 if sum(l) <= 4 else 4) for l in layouts(3, 6) if not (len(l) == 3 and sum(l) > 5)]


def _chromsizes_cases(tier):
    out = _binsize_cases(tier) + [dict(layout=[2, 1, 2], wmax=2, dup_labels=True), dict(layout=[1, 3], wmax=2, dup_labels=True)]
    if tier != "quick":
        # widths without a practical bound (genome-scale coordinates, beyond int32): get_chromsizes only reads the last end
        # (get_binsize collects the widths in a set, which the executor can only do for enumerable values)
        out = out + [dict(layout=list(l), wmax=10**10) for l in layouts(3, 5)]
    return out


# ---------------------------------------------------------------------------
def chromsizes_body(env, p):
    util = env.mod("util")
    pd = _pd(env)
    layout, wmax = p["layout"], p["wmax"]
    if env.symbolic:
        bins, widths = sym_bins(layout, wmax)
    else:
        widths = real_widths(env.inputs, layout)
        bins = bins_frame(layout, widths, pd)
    if p.get("dup_labels"):
        # a table glued together from per-chromosome pieces without ignore_index: row labels restart in every chromosome
        bins.index = np.array([k for nb in layout for k in range(nb)])
    cs = util.get_chromsizes(bins)
    vals = list(cs.values)
    names = list(cs.index)
    if names != [f"c{i}" for i in range(len(layout))] or len(vals) != len(layout):
        env.fail("get_chromsizes: names / order differ from the bin table")
        return None
    env.check(and_(*[vals[ci] == ssum(ws) for ci, ws in enumerate(widths)]),
              "get_chromsizes: a length is not the end of the chromosome's last bin")
    return vals


chromsizes_sym, chromsizes_real = both(chromsizes_body)


CHECKS = [
    Check("binnify", _binnify_cases, binnify_sym, binnify_real, labels=("multiple_of_width", "shorter_than_width"),
          doc="util.binnify on symbolic chromosome lengths; width concrete per case (division by a constant)",
          bounds=dict(quick="width 1..3, 1-2 chromosomes, <=3 bins each", thorough="widths up to 3e9 (across the int32 limit), 1-4 chromosomes, <=8 bins each"),
          stubs=("E2 int/int true division then ceil: exact rational",)),
    Check("get_binsize", _binsize_cases, binsize_sym, binsize_real, labels=("long_last_bin", "reports_size"),
          doc="util.get_binsize on every valid bin table of each layout with symbolic widths",
          bounds=dict(quick="<=2 chromosomes, <=4 bins, widths 1..3", thorough="<=3 chromosomes, <=6 bins, widths 1..4/5 (widths enter a Python set: enumerable values only)")),
    Check("get_chromsizes", _chromsizes_cases, chromsizes_sym, chromsizes_real,
          doc="util.get_chromsizes == end of last bin per chromosome", bounds=dict(quick="as get_binsize", thorough="as get_binsize, plus <=5 bins with widths 1..1e10")),
]

MUTANTS = [
    dict(name="revert F1 fix (long last bin accepted)", file="util.py", old="if max_last > binsize:", new="if False:",
         checks=["get_binsize"]),
    dict(name="binnify: last edge not clamped", file="util.py", old="binedges[-1] = clen", new="pass", checks=["binnify"]),
    dict(name="binnify: floor instead of ceil", file="util.py", old="n_bins = int(np.ceil(clen / binsize))",
         new="n_bins = int(np.floor(clen / binsize))", checks=["binnify"]),
    dict(name="get_chromsizes keeps first bin", file="util.py", old='bins.drop_duplicates(["chrom"], keep="last")',
         new='bins.drop_duplicates(["chrom"], keep="first")', checks=["get_chromsizes"]),
    dict(name="get_binsize looks at first chromosome only", file="util.py", old="        max_last = max(max_last, widths.iloc[-1])\n",
         new="        max_last = max(max_last, widths.iloc[-1])\n        break\n", checks=["get_binsize"]),
]
