"""C13 - invalid input or a failed write never yields a cooler nor harms its neighbours."""
from __future__ import annotations

import numpy as np

from .common import *  # noqa: F401,F403
from .common import (Check, OracleFailure, SymEnv, sym_pixels, pixels_from_inputs, scratch_file, symcooler)
from .model import concrete_bins, build_cooler_sym, build_cooler_real, sym_cuts, real_cuts


class Boom(RuntimeError):
    pass


def _stream(cols, cuts, mk, fail_at):
    for idx, (lo, hi) in enumerate(zip(cuts[:-1], cuts[1:])):
        if idx == fail_at:
            raise Boom("input iterator failed")
        yield {k: mk(v[lo:hi], k) for k, v in cols.items()}
    if fail_at == len(cuts) - 1:
        raise Boom("input iterator failed")


def _chunk_valid(b1, b2, cuts, n, upper):
    conds = []
    for lo, hi in zip(cuts[:-1], cuts[1:]):
        for q in range(lo, hi):
            conds.append(and_(0 <= b1[q], b1[q] < n, 0 <= b2[q], b2[q] < n))
            if upper:
                conds.append(b1[q] <= b2[q])
            for r in range(lo, q):
                conds.append(not_(and_(b1[q] == b1[r], b2[q] == b2[r])))
    return and_(*conds)


def _snapshot(path, group):
    from engine import symh5

    def rec(node, prefix, out):
        out[prefix + "@"] = dict(node.attrs)
        if isinstance(node, symh5._DatasetNode):
            out[prefix] = list(node.data.items) if hasattr(node.data, "items") else node.data.tolist()
        else:
            for k, link in node.children.items():
                if link[0] == "hard":
                    rec(link[1], prefix + "/" + k, out)
    f = symh5.File(path, "r")
    out = {}
    rec(f[group].id.node, "", out)
    f.close()
    return out


def _snap_equal(a, b):
    if a.keys() != b.keys():
        return False
    conds = []
    for k in a:
        x, y = a[k], b[k]
        if isinstance(x, dict):
            if x.keys() != y.keys():
                return False
            for kk in x:
                if kk == "creation-date":
                    continue
                c = x[kk] == y[kk]
                conds.append(c if isinstance(c, (SBool, bool, np.bool_)) else bool(c))
        else:
            if len(x) != len(y):
                return False
            conds.extend([p == q for p, q in zip(x, y)])
    return and_(*[c if isinstance(c, SBool) else bool(c) for c in conds])


def _dest(p, path):
    if p["dest"] == "sibling":
        return path + "::/res/dst"      # shares its top-level group with the neighbouring collection (the layout of a multi-resolution file)
    return path if p["dest"] == "root" else path + "::" + ("/dst" if p["dest"] != "deep" else "/a/dst")


def _idkw(p):
    """the bin-id columns declared narrower than the ids handed over (dtypes argument): an id outside the bin table is still out of range,
    whatever it would wrap to in the declared type"""
    return {"dtypes": {"bin1_id": p["id_dtype"], "bin2_id": p["id_dtype"]}} if p.get("id_dtype") else {}


def _nb(p):
    return "/res/nb" if p["dest"] == "sibling" else "/nb"


def fault_sym(p):
    from engine import symh5
    symh5.reset()
    sc = symcooler()
    n, K, m, upper = p["n"], p["K"], p["m"], p["upper"]
    bins = concrete_bins([n], "even")
    # free records: any bin id in -1..n, any order; validity is decided by the oracle
    lo, hi = p.get("idlo", -1), p.get("idhi", n)
    b1 = [sym_int(f"r{q}", lo, hi) for q in range(K)]
    b2 = [sym_int(f"c{q}", lo, hi) for q in range(K)]
    v = [sym_int(f"v{q}", 1, 5) for q in range(K)]
    cuts = sym_cuts(K, m)
    fail_at = concretize(sym_int("fail_at", 0, m)) if p["iterfault"] else m + 5
    if p["iterfault"]:
        assume(_chunk_valid(b1, b2, cuts, n, upper))
    path = scratch_file("c13.cool")
    neighbour = p["dest"] != "root" or p["neighbour"]
    if p["neighbour"]:
        nb1, nb2, nv = sym_pixels(n, 1, True, prefix="nb_")
        build_cooler_sym(path, bins, nb1, nb2, {"count": nv}, True, group=_nb(p))
        f = symh5.File(path, "r+")
        f.attrs["note"] = "keep me"
        if p["dest"] == "junk":
            f.create_group("/dst").create_dataset("x", data=SArr([1, 2], "int64"))
        before = _snapshot(path, _nb(p))
    dst = _dest(p, path)
    valid = _chunk_valid(b1, b2, cuts, n, upper)
    dts = {"bin1_id": "int64", "bin2_id": "int64", "count": "int32"}
    stream = _stream({"bin1_id": b1, "bin2_id": b2, "count": v}, cuts, lambda items, k: SArr(list(items), dts[k]), fail_at)
    cover("low", or_(*[x < 0 for x in b1 + b2]))
    cover("high", or_(*[x >= n for x in b1 + b2]))
    cover("tril", or_(*[x > y for x, y in zip(b1, b2)]) if upper else True)
    cover("fault_in_later_chunk", and_(not_(_chunk_valid(b1, b2, cuts[-2:], n, upper)), _chunk_valid(b1, b2, cuts[:2], n, upper), cuts[1] > 0) if m > 1 else True)
    failed = False
    try:
        if p["producer"] == "ordered":
            sc.create_cooler(dst, bins, stream, ordered=True, symmetric_upper=upper, mode="a" if p["neighbour"] else "w", **_idkw(p))
        else:
            sc.create_cooler(dst, bins, stream, ordered=False, symmetric_upper=upper, mode="a" if p["neighbour"] else "w", mergebuf=2, **_idkw(p))
    except (ValueError, Boom) as e:
        failed = True
    if not failed:
        prove(and_(valid, fail_at >= m + 1 if p["iterfault"] else True) if not p["iterfault"] else (fail_at > m),
              "input with an out-of-range id, a lower-triangle pixel or an in-chunk duplicate was accepted (or an iterator failure was swallowed)")
        return ["created"]
    if not p["iterfault"]:
        prove(not_(valid), "a stream in which every chunk is in range, upper-triangular and duplicate-free was rejected")
    fo = sc.fileops
    uri_ok = True
    if symh5.is_hdf5(path):
        try:
            rec = fo.is_cooler(dst)
        except KeyError:
            rec = False  # no such group at all: nothing was created there (is_cooler's own behaviour on missing paths is C15)
        prove(not rec, "after a failed creation the destination is recognised as a cooler")
        listing = fo.list_coolers(path)
        want = [_nb(p)] if p["neighbour"] else []
        prove(listing == want, f"after a failed creation the file lists {listing}, expected {want}")
    if p["neighbour"]:
        after = _snapshot(path, _nb(p))
        prove(_snap_equal(before, after), "a neighbouring collection in the same file changed although the creation failed")
        f = symh5.File(path, "r")
        prove(f.attrs.get("note") == "keep me", "an unrelated file attribute was lost")
        f.close()
        c = sc.Cooler(path + "::" + _nb(p))
        tab = c.pixels()[:]
        prove(and_(tab["bin1_id"].values[0] == nb1[0], tab["bin2_id"].values[0] == nb2[0], tab["count"].values[0] == nv[0]),
              "the neighbouring collection no longer reads back unchanged")
    return ["failed"]


def fault_real(p, inputs):
    import cooler
    import h5py
    from cooler import fileops as fo
    n, K, m, upper = p["n"], p["K"], p["m"], p["upper"]
    bins = concrete_bins([n], "even")
    b1 = [inputs[f"r{q}"] for q in range(K)]
    b2 = [inputs[f"c{q}"] for q in range(K)]
    v = [inputs[f"v{q}"] for q in range(K)]
    cuts = real_cuts(inputs, K, m)
    fail_at = inputs["fail_at"] if p["iterfault"] else m + 5
    path = scratch_file("c13.cool")
    if p["neighbour"]:
        nb = pixels_from_inputs(inputs, 1, prefix="nb_")
        build_cooler_real(path, bins, nb[0], nb[1], {"count": nb[2]}, True, group=_nb(p))
        with h5py.File(path, "r+") as f:
            f.attrs["note"] = "keep me"
            if p["dest"] == "junk":
                f.create_group("/dst").create_dataset("x", data=np.array([1, 2]))
        import subprocess
        before = _real_dump(path, _nb(p))
    dst = _dest(p, path)
    valid = bool(_chunk_valid(b1, b2, cuts, n, upper))
    dts = {"bin1_id": "int64", "bin2_id": "int64", "count": "int32"}
    stream = _stream({"bin1_id": b1, "bin2_id": b2, "count": v}, cuts, lambda items, k: np.array(list(items), dtype=dts[k]), fail_at)
    failed = False
    try:
        if p["producer"] == "ordered":
            cooler.create_cooler(dst, bins, stream, ordered=True, symmetric_upper=upper, mode="a" if p["neighbour"] else "w", **_idkw(p))
        else:
            cooler.create_cooler(dst, bins, stream, ordered=False, symmetric_upper=upper, mode="a" if p["neighbour"] else "w", mergebuf=2, **_idkw(p))
    except (ValueError, Boom):
        failed = True
    if not failed:
        if (not p["iterfault"] and not valid) or (p["iterfault"] and fail_at <= m):
            raise OracleFailure("invalid input was accepted (or an iterator failure was swallowed)")
        return ["created"]
    if not p["iterfault"] and valid:
        raise OracleFailure("a valid stream was rejected")
    if h5py.is_hdf5(path):
        try:
            rec = fo.is_cooler(dst)
        except KeyError:
            rec = False
        if rec:
            raise OracleFailure("after a failed creation the destination is recognised as a cooler")
        listing = fo.list_coolers(path)
        if listing != ([_nb(p)] if p["neighbour"] else []):
            raise OracleFailure(f"after a failed creation the file lists {listing}")
    if p["neighbour"]:
        if _real_dump(path, _nb(p)) != before:
            raise OracleFailure("a neighbouring collection in the same file changed although the creation failed")
        with h5py.File(path, "r") as f:
            if f.attrs.get("note") != "keep me":
                raise OracleFailure("an unrelated file attribute was lost")
    return ["failed"]


def _real_dump(path, group):
    import h5py
    out = {}
    with h5py.File(path, "r") as f:
        def visit(name, obj):
            out[name + "@"] = {k: (v.tolist() if hasattr(v, "tolist") else v) for k, v in obj.attrs.items()}
            if isinstance(obj, h5py.Dataset):
                out[name] = obj[:].tolist()
        f[group].visititems(visit)
        out["@"] = {k: (v.tolist() if hasattr(v, "tolist") else v) for k, v in f[group].attrs.items()}
    return out


def _cases(tier):
    out = []
    base = [dict(n=2, K=2, m=2)] if tier == "quick" else [dict(n=2, K=2, m=2), dict(n=3, K=3, m=2), dict(n=2, K=3, m=3), dict(n=3, K=4, m=3)]
    for b in base:
        for producer in ("ordered", "unordered"):
            for iterfault in (False, True):
                for dest, neighbour in (("root", False), ("group", True), ("junk", True), ("deep", True), ("sibling", True)):
                    if tier == "quick" and producer == "unordered" and dest in ("junk", "deep"):
                        continue
                    for upper in ((True, False) if (dest == "root" and not iterfault) else (True,)):
                        out.append(dict(b, producer=producer, iterfault=iterfault, dest=dest, neighbour=neighbour, upper=upper))
    for producer in ("ordered", "unordered"):
        for dt, lim in (("int8", 300), ("uint16", 70000)):
            out.append(dict(n=2, K=1, m=1, producer=producer, iterfault=False, dest="root", neighbour=False, upper=False, id_dtype=dt, idlo=-lim, idhi=lim))
    return out


CHECKS = [
    Check("fault", _cases, fault_sym, fault_real, labels=("low", "high", "tril", "fault_in_later_chunk"),
          doc="ordered and unordered creation from a stream of free (unconstrained) records, or from a valid stream whose iterator raises before a "
              "solver-chosen chunk: error <=> some chunk has an out-of-range id / lower-triangle pixel / in-chunk duplicate; afterwards the destination "
              "(new file, new group, existing non-cooler group, nested group) is not recognised and not listed; a neighbouring collection with "
              "symbolic contents and the file attributes are untouched in the raw store",
          bounds=dict(quick="n=2 bins, K=2 records with ids in -1..n, m=2 chunks (every cut), failure before chunk 0..m", thorough="n<=3, K<=3, m<=3"),
          stubs=("E3 in-memory h5py model", "E4 pandas models", "E8 tempfile"),
          outside=("process death / torn HDF5 writes (only exceptions are modelled)",), timeout=2400, split_depth=8),
]

MUTANTS = [
    dict(name="upper bound check uses >", file="create/_ingest.py", old='        is_excess = (chunk["bin1_id"] >= n_bins) | (chunk["bin2_id"] >= n_bins)', new='        is_excess = (chunk["bin1_id"] > n_bins) | (chunk["bin2_id"] > n_bins)', checks=["fault"]),
    dict(name="negative check on bin1 only", file="create/_ingest.py", old='        is_neg = (chunk["bin1_id"] < 0) | (chunk["bin2_id"] < 0)', new='        is_neg = (chunk["bin1_id"] < 0)', checks=["fault"]),
    dict(name="triangularity check disabled", file="create/_ingest.py", old='        is_tril = chunk["bin1_id"] > chunk["bin2_id"]\n        if np.any(is_tril):\n            raise BadInputError("Found bin1_id greater than bin2_id")\n\n    if not isinstance(chunk, pd.DataFrame):',
         new='        is_tril = chunk["bin1_id"] > chunk["bin2_id"]\n        if False:\n            raise BadInputError("Found bin1_id greater than bin2_id")\n\n    if not isinstance(chunk, pd.DataFrame):', checks=["fault"]),
    dict(name="duplicate check on bin1 only", file="create/_ingest.py", old='        is_dup = chunk.duplicated(["bin1_id", "bin2_id"])', new='        is_dup = chunk.duplicated(["bin1_id"])', checks=["fault"]),
    dict(name="validator only on the first chunk", file="create/_create.py", old="        iterable = map(validator, iterable)", new="        iterable = (validator(c) if i == 0 else c for i, c in enumerate(iterable))", checks=["fault"]),
    dict(name="format attribute written before the pixels", file="create/_create.py", old='    logger.info("Writing pixels")\n    target = posixpath.join(group_path, "pixels")',
         new='    with h5py.File(file_path, "r+") as f:\n        f[group_path].attrs["format"] = MAGIC\n    logger.info("Writing pixels")\n    target = posixpath.join(group_path, "pixels")', checks=["fault"]),
    dict(name="append mode truncates the file", file="create/_create.py", old="    with h5py.File(file_path, mode) as f:\n        logger.info(f'Creating cooler at", new="    with h5py.File(file_path, 'w') as f:\n        logger.info(f'Creating cooler at", checks=["fault"]),
]


# ---------------------------------------------------------------------------
# merge and coarsen as producers: a source that (against the schema) holds a lower-triangle record in a symmetric-upper collection
# ---------------------------------------------------------------------------
def reducers_sym(p):
    from engine import symh5
    symh5.reset()
    sc = symcooler()
    n, K, op = p["n"], p["K"], p["op"]
    bins = concrete_bins([n], "even")
    # sorted by (bin1, bin2) but NOT constrained to the upper triangle, stored in a collection flagged symmetric-upper
    b1, b2, v = sym_pixels(n, K, False)
    path = scratch_file("c13r.cool")
    # merge keeps its inputs open read-only while it writes, so its sources live in another file; coarsen works within one file
    spath = scratch_file("c13r_src.cool") if op == "merge" else path
    build_cooler_sym(spath, bins, b1, b2, {"count": v}, True, group="/src")
    nb1, nb2, nv = sym_pixels(n, 1, True, prefix="nb_")
    build_cooler_sym(path, bins, nb1, nb2, {"count": nv}, True, group="/nb", mode="a" if spath == path else "w")
    before = _snapshot(path, "/nb")
    dst = path + "::/dst"
    if op == "coarsen":
        k = 2
        newid = [i // k for i in range(n)]
        from engine.symnp import _sel
        bad = or_(*[_sel(newid, x) > _sel(newid, y) for x, y in zip(b1, b2)])
    else:
        bad = or_(*[x > y for x, y in zip(b1, b2)])
    cover("lower_triangle_source", bad)
    failed = False
    try:
        if op == "coarsen":
            sc.coarsen_cooler(path + "::/src", dst, 2, concretize(sym_int("chunksize", 1, K + 1)))
        else:
            sc.merge_coolers(dst, [spath + "::/src", spath + "::/src"], mergebuf=concretize(sym_int("mergebuf", 1, 2 * K + 1)), mode="a")
    except ValueError:
        failed = True
    if not failed:
        prove(not_(bad), f"{op}: a lower-triangle pixel reached a symmetric-upper output without an error")
        return ["created"]
    prove(bad, f"{op} refused a valid source")
    fo = sc.fileops
    prove(not fo.is_cooler(dst), f"after a failed {op} the destination is recognised as a cooler")
    listing = fo.list_coolers(path)
    want = ["/nb", "/src"] if spath == path else ["/nb"]
    prove(listing == want, f"after a failed {op} the file lists {listing}")
    prove(_snap_equal(before, _snapshot(path, "/nb")), "a neighbouring collection changed although the operation failed")
    return ["failed"]


def reducers_real(p, inputs):
    import cooler
    import h5py
    from cooler import fileops as fo
    n, K, op = p["n"], p["K"], p["op"]
    bins = concrete_bins([n], "even")
    b1, b2, v = pixels_from_inputs(inputs, K)
    path = scratch_file("c13r.cool")
    spath = scratch_file("c13r_src.cool") if op == "merge" else path
    # the real create() would refuse this table: write it as square, then flip the storage-mode flag (an invalid but possible file)
    build_cooler_real(spath, bins, b1, b2, {"count": v}, False, group="/src")
    with h5py.File(spath, "r+") as f:
        f["/src"].attrs["storage-mode"] = "symmetric-upper"
    nb = pixels_from_inputs(inputs, 1, prefix="nb_")
    build_cooler_real(path, bins, nb[0], nb[1], {"count": nb[2]}, True, group="/nb", mode="a" if spath == path else "w")
    before = _real_dump(path, "/nb")
    dst = path + "::/dst"
    bad = any((x // 2 > y // 2) if op == "coarsen" else (x > y) for x, y in zip(b1, b2))
    failed = False
    try:
        if op == "coarsen":
            cooler.coarsen_cooler(path + "::/src", dst, 2, inputs["chunksize"])
        else:
            cooler.merge_coolers(dst, [spath + "::/src", spath + "::/src"], mergebuf=inputs["mergebuf"], mode="a")
    except ValueError:
        failed = True
    if not failed:
        if bad:
            raise OracleFailure(f"{op}: a lower-triangle pixel reached a symmetric-upper output without an error")
        return ["created"]
    if not bad:
        raise OracleFailure(f"{op} refused a valid source")
    if fo.is_cooler(dst):
        raise OracleFailure(f"after a failed {op} the destination is recognised as a cooler")
    if fo.list_coolers(path) != (["/nb", "/src"] if spath == path else ["/nb"]):
        raise OracleFailure(f"after a failed {op} the file lists {fo.list_coolers(path)}")
    if _real_dump(path, "/nb") != before:
        raise OracleFailure("a neighbouring collection changed although the operation failed")
    return ["failed"]


CHECKS.append(
    Check("reducers", lambda tier: [dict(n=n, K=K, op=op) for n, K in ([(4, 2)] if tier == "quick" else [(4, 2), (4, 3)]) for op in ("coarsen", "merge")],
          reducers_sym, reducers_real, labels=("lower_triangle_source",),
          doc="coarsen_cooler / merge_coolers as producers, reading a symmetric-upper source that holds lower-triangle records (constructed directly "
              "in the store): error <=> a lower-triangle pixel would reach the output; afterwards the destination group is not recognised or listed "
              "and a neighbouring collection is untouched",
          bounds=dict(quick="n=4 bins, K=2 source records anywhere in the square, factor 2", thorough="K=3"), timeout=2400, split_depth=7))
