"""C12 - balanced reads equal raw values times the two bin weights."""
from __future__ import annotations

import math

import numpy as np

from .common import *  # noqa: F401,F403
from .common import (Check, OracleFailure, SymEnv, sym_pixels, pixels_from_inputs, scratch_file, symcooler, sym_real, sym_bool)
from .model import concrete_bins, build_cooler_sym, build_cooler_real
from engine.symcore import SReal
import z3


def _weights_sym(n, divisive):
    ws = []
    for i in range(n):
        w = sym_real(f"w{i}", -4, 4, nan=True)
        if divisive:
            CTX.add(z3.Or(w.nan, w.v != 0))  # 1/0 is +-inf in numpy: outside the real+NaN model
        ws.append(w)
    return ws


def _f(w, divisive):
    return (1 / w) if divisive else w


def balanced_sym(p):
    from engine import symh5
    symh5.reset()
    sc = symcooler()
    n, K, upper, form, name, divisive = p["n"], p["K"], p["upper"], p["form"], p["name"], p["divisive"]
    bins = concrete_bins([n], "even")
    b1, b2, v = sym_pixels(n, K, upper)
    path = scratch_file("c12.cool")
    build_cooler_sym(path, bins, b1, b2, {"count": v}, upper)
    ws = _weights_sym(n, divisive)
    f = symh5.File(path, "r+")
    f["bins"].create_dataset(name, data=SArr(ws, "float64"))
    f["bins"].create_dataset("decoy", data=SArr([SReal.of(7.0)] * n, "float64"))
    i0, i1, j0, j1 = (sym_int(k, 0, n) for k in ("i0", "i1", "j0", "j1"))
    assume(and_(i0 <= i1, j0 <= j1))
    clr = sc.Cooler(path)
    kw = {}
    if p["explicit_div"]:
        kw["divisive_weights"] = divisive
    if p.get("keep_index"):
        kw["ignore_index"] = False      # pixel output labelled with the pixel ids instead of 0..k-1
    sel = clr.matrix(balance=name if name != "weight" else True, sparse=(form == "sparse"), as_pixels=(form == "pixels"), **kw)
    out = sel[i0:i1, j0:j1]
    cover("rectangular", or_(i0 != j0, i1 != j1))
    cover("nan_weight", or_(*[w.isnan() for w in ws]))
    fw = [_f(w, divisive) for w in ws]
    from engine.symnp import _sel

    def W(k):
        return _sel(fw, k)

    def cell(A, B):
        terms = [ite(or_(and_(r == A, c == B), and_(r == B, c == A)) if upper else and_(r == A, c == B), x, 0) for r, c, x in zip(b1, b2, v)]
        return ssum(terms)

    if form == "pixels":
        if "balanced" not in list(out.columns):
            prove(False, f"pixel output has no 'balanced' column (columns {list(out.columns)})")
        R, C, V, Bal = (list(out[k].values) for k in ("bin1_id", "bin2_id", "count", "balanced"))
        conds = []
        for t in range(len(R)):
            e = W(R[t]) * W(C[t]) * V[t]
            conds.append(or_(and_(Bal[t].isnan(), e.isnan()), and_(not_(Bal[t].isnan()), not_(e.isnan()), Bal[t] == e)))
        prove(and_(*conds), "pixel output: balanced value is not count * weight[bin1] * weight[bin2]")
        return dict(r=R, c=C, bal=Bal)
    if form == "sparse":
        rows, cols, data = list(out.row), list(out.col), list(out.data)
        conds = []
        for t in range(len(rows)):
            A, B = i0 + rows[t], j0 + cols[t]
            e = W(A) * W(B) * cell(A, B)
            conds.append(or_(and_(data[t].isnan(), e.isnan()), and_(not_(data[t].isnan()), not_(e.isnan()), data[t] == e)))
        prove(and_(*conds), "sparse output: value is not raw * row weight * column weight")
        return dict(row=rows, col=cols, data=data)
    nr, nc = out.shape
    conds = []
    for a in range(nr):
        for b_ in range(nc):
            A, B = i0 + a, j0 + b_
            e = W(A) * W(B) * cell(A, B)
            g = out[a, b_]
            g = SReal.of(g)
            conds.append(or_(and_(g.isnan(), e.isnan()), and_(not_(g.isnan()), not_(e.isnan()), g == e)))
    prove(and_(*conds), "dense output: value is not raw * row weight * column weight (NaN iff either bin is masked)")
    return out


def _wval(x):
    return float(x)


def balanced_real(p, inputs):
    import cooler
    import h5py
    n, K, upper, form, name, divisive = p["n"], p["K"], p["upper"], p["form"], p["name"], p["divisive"]
    bins = concrete_bins([n], "even")
    b1, b2, v = pixels_from_inputs(inputs, K)
    path = scratch_file("c12.cool")
    build_cooler_real(path, bins, b1, b2, {"count": v}, upper)
    ws = np.array([float("nan") if inputs.get(f"w{i}#nan") else float(inputs[f"w{i}"]) for i in range(n)])
    with h5py.File(path, "r+") as f:
        f["bins"].create_dataset(name, data=ws)
        f["bins"].create_dataset("decoy", data=np.full(n, 7.0))
    i0, i1, j0, j1 = (inputs[k] for k in ("i0", "i1", "j0", "j1"))
    clr = cooler.Cooler(path)
    kw = {}
    if p["explicit_div"]:
        kw["divisive_weights"] = divisive
    if p.get("keep_index"):
        kw["ignore_index"] = False
    out = clr.matrix(balance=name if name != "weight" else True, sparse=(form == "sparse"), as_pixels=(form == "pixels"), **kw)[i0:i1, j0:j1]
    fw = 1 / ws if divisive else ws
    full = np.zeros((n, n))
    for r, c, x in zip(b1, b2, v):
        full[r, c] += x
        if upper and r != c:
            full[c, r] += x
    ref = full * np.outer(fw, fw)

    def same(a, b):
        return (math.isnan(a) and math.isnan(b)) or (not math.isnan(a) and not math.isnan(b) and abs(a - b) <= 1e-9 * max(1, abs(a), abs(b)))

    if form == "pixels":
        if "balanced" not in out.columns:
            raise OracleFailure(f"pixel output has no 'balanced' column (columns {list(out.columns)})")
        for r, c, x, bal in zip(out["bin1_id"], out["bin2_id"], out["count"], out["balanced"]):
            if not same(float(bal), float(fw[r] * fw[c] * x)):
                raise OracleFailure(f"pixel ({r},{c}): balanced {bal} != count * weights {fw[r] * fw[c] * x}")
        return dict(r=out["bin1_id"].tolist(), c=out["bin2_id"].tolist(), bal=out["balanced"].tolist())
    if form == "sparse":
        for r, c, d in zip(out.row, out.col, out.data):
            if not same(float(d), float(ref[i0 + r, j0 + c])):
                raise OracleFailure(f"sparse entry ({i0 + r},{j0 + c}) = {d}, expected {ref[i0 + r, j0 + c]}")
        return dict(row=out.row.tolist(), col=out.col.tolist(), data=out.data.tolist())
    exp = ref[i0:i1, j0:j1]
    if out.shape != exp.shape or not all(same(float(a), float(b)) for a, b in zip(out.ravel(), exp.ravel())):
        raise OracleFailure(f"dense balanced block {out.tolist()} != raw * outer(weights) {exp.tolist()}")
    return out


def _cases(tier):
    out = []
    sizes = [(2, 1), (3, 1)] if tier == "quick" else [(2, 2), (3, 2), (4, 2)]
    for n, K in sizes:
        for form in ("dense", "sparse", "pixels"):
            for name, divisive, explicit in (("weight", False, False), ("KR", True, False), ("wx", True, True), ("VC", False, True)):
                if tier == "quick" and n == 3 and name in ("wx", "VC"):
                    continue
                for upper in ((True, False) if name == "weight" else (True,)):
                    out.append(dict(n=n, K=K, upper=upper, form=form, name=name, divisive=divisive, explicit_div=explicit))
    # pixel output that keeps the pixel ids as row labels (ignore_index=False), windows that select a later pixel only
    for upper in (True, False):
        out.append(dict(n=2, K=2, upper=upper, form="pixels", name="weight", divisive=False, explicit_div=False, keep_index=True))
    return out


def missing_sym(p):
    from engine import symh5
    symh5.reset()
    sc = symcooler()
    bins = concrete_bins([2], "even")
    b1, b2, v = sym_pixels(2, 1, True)
    path = scratch_file("c12m.cool")
    build_cooler_sym(path, bins, b1, b2, {"count": v}, True)
    clr = sc.Cooler(path)
    try:
        out = clr.matrix(balance=p["balance"], sparse=p["form"] == "sparse", as_pixels=p["form"] == "pixels")[0:2, 0:2]
    except ValueError:
        return ["raises", "ValueError"]
    prove(False, "asking for a missing weight column returned an unbalanced result instead of an error")
    return ["returned"]


def missing_real(p, inputs):
    import cooler
    bins = concrete_bins([2], "even")
    b1, b2, v = pixels_from_inputs(inputs, 1)
    path = scratch_file("c12m.cool")
    build_cooler_real(path, bins, b1, b2, {"count": v}, True)
    try:
        cooler.Cooler(path).matrix(balance=p["balance"], sparse=p["form"] == "sparse", as_pixels=p["form"] == "pixels")[0:2, 0:2]
    except ValueError:
        return ["raises", "ValueError"]
    raise OracleFailure("asking for a missing weight column returned an unbalanced result instead of an error")


CHECKS = [
    Check("balanced", _cases, balanced_sym, balanced_real, labels=("rectangular", "nan_weight"),
          doc="Cooler.matrix(balance=...) dense/sparse/pixel output on symbolic pixels, windows and weight columns (Real + NaN flag): "
              "value == raw * f(w[row]) * f(w[col]), f = id or reciprocal (default for KR/VC), NaN iff either weight is NaN",
          bounds=dict(quick="n<=3 bins, K=1 pixel, all windows", thorough="n<=4, K=2"),
          stubs=("weights as exact reals plus a NaN flag (no rounding, no infinities: zero divisive weights excluded)", "E3", "E4", "E5"),
          outside=("float rounding of the products", "zero divisive weights (infinite factors)"), timeout=2400, split_depth=8),
    Check("missing_column", lambda tier: [dict(balance=b, form=f) for b in (True, "nope") for f in ("dense", "sparse", "pixels")],
          missing_sym, missing_real, doc="asking for a weight column that does not exist raises ValueError in every output form"),
]

MUTANTS = [
    dict(name="dense: column weights taken from the row range", file="api.py",
         old="            bias2 = bias1 if (i0, i1) == (j0, j1) else weights[j0:j1]\n            if divisive_weights:\n                bias1 = 1 / bias1\n                bias2 = 1 / bias2\n            arr = arr * np.outer(bias1, bias2)",
         new="            bias2 = bias1 if (i1 - i0) == (j1 - j0) else weights[j0:j1]\n            if divisive_weights:\n                bias1 = 1 / bias1\n                bias2 = 1 / bias2\n            arr = arr * np.outer(bias1, bias2)", checks=["balanced"]),
    dict(name="sparse: row/col weights swapped", file="api.py", old="            mat.data = bias1[mat.row] * bias2[mat.col] * mat.data", new="            mat.data = bias1[mat.col] * bias2[mat.row] * mat.data", checks=["balanced"], expect="caught"),
    dict(name="KR not divisive by default", file="api.py", old='_4DN_DIVISIVE_WEIGHTS = {"KR", "VC", "VC_SQRT"}', new='_4DN_DIVISIVE_WEIGHTS = {"VC", "VC_SQRT"}', checks=["balanced"]),
    dict(name="pixels: second weight not inverted", file="api.py", old='                df2[name + "2"] = 1 / df2[name + "2"]\n', new="", checks=["balanced"]),
    dict(name="missing column silently unbalanced", file="api.py", old='    if balance and name not in h5["bins"]:', new='    if balance and name not in h5["bins"]:\n        balance = False\n    if False:', checks=["missing_column"]),
    dict(name="pixels: balanced uses bin1 weight twice", file="api.py", old='            df["balanced"] = df2[name + "1"] * df2[name + "2"] * df2[field]', new='            df["balanced"] = df2[name + "1"] * df2[name + "1"] * df2[field]', checks=["balanced"]),
]


# ---------------------------------------------------------------------------
# cooler dump -b: the `balanced` column written by the CLI annotator
# ---------------------------------------------------------------------------
def dumpb_sym(p):
    from engine import symh5, sympd
    symh5.reset()
    sc = symcooler()
    import symcooler.cli.dump as D
    n, K = p["n"], p["K"]
    bins = concrete_bins([n], "even")
    b1, b2, v = sym_pixels(n, K, True)
    path = scratch_file("c12d.cool")
    build_cooler_sym(path, bins, b1, b2, {"count": v}, True)
    ws = _weights_sym(n, False)
    f = symh5.File(path, "r+")
    f["bins"].create_dataset("weight", data=SArr(ws, "float64"))
    f.close()
    join = bool(sym_bool("join"))
    fill = bool(sym_bool("fill_lower"))
    sympd.CSV_LOG.clear()
    D.dump.callback(cool_uri=path, table="pixels", columns=None, header=False, na_rep="", float_format="g", range=None, range2=None,
                    fill_lower=fill, balanced=True, join=join, annotate=None, one_based_ids=False, one_based_starts=False,
                    chunksize=concretize(sym_int("chunksize", 1, K + 1)), out=scratch_file("c12d.tsv"))
    from engine.symnp import _sel
    rows = []
    starts = bins["start"].tolist()
    for fr in sympd.CSV_LOG:
        for t in range(len(fr)):
            rows.append({k: list(fr[k].values)[t] for k in fr.columns})
    cover("nan_weight", or_(*[w.isnan() for w in ws]))
    conds = []
    for r in rows:
        if join:
            # identify the two bins from the joined start coordinates
            i = ssum([ite(r["start1"] == s, k, 0) for k, s in enumerate(starts)])
            j = ssum([ite(r["start2"] == s, k, 0) for k, s in enumerate(starts)])
        else:
            i, j = r["bin1_id"], r["bin2_id"]
        e = _sel(ws, i) * _sel(ws, j) * r["count"]
        g = SReal.of(r["balanced"])
        conds.append(or_(and_(g.isnan(), e.isnan()), and_(not_(g.isnan()), not_(e.isnan()), g == e)))
    prove(and_(*conds), "dump -b: balanced column is not count * weight[bin1] * weight[bin2]")
    return [[r["count"], r["balanced"]] for r in rows]


def dumpb_real(p, inputs):
    import io
    import cooler
    import h5py
    import pandas as pd
    import cooler.cli.dump as D
    n, K = p["n"], p["K"]
    bins = concrete_bins([n], "even")
    b1, b2, v = pixels_from_inputs(inputs, K)
    path = scratch_file("c12d.cool")
    build_cooler_real(path, bins, b1, b2, {"count": v}, True)
    ws = np.array([float("nan") if inputs.get(f"w{i}#nan") else float(inputs[f"w{i}"]) for i in range(n)])
    with h5py.File(path, "r+") as f:
        f["bins"].create_dataset("weight", data=ws)
    out = scratch_file("c12d.tsv")
    D.dump.callback(cool_uri=path, table="pixels", columns=None, header=True, na_rep="nan", float_format=".17g", range=None, range2=None,
                    fill_lower=bool(inputs["fill_lower"]), balanced=True, join=bool(inputs["join"]), annotate=None, one_based_ids=False,
                    one_based_starts=False, chunksize=inputs["chunksize"], out=out)
    txt = open(out).read()
    df = pd.read_csv(io.StringIO(txt), sep="\t") if txt.strip() else pd.DataFrame()
    starts = bins["start"].tolist()
    res = []
    for _, r in df.iterrows():
        i, j = (starts.index(r["start1"]), starts.index(r["start2"])) if inputs["join"] else (int(r["bin1_id"]), int(r["bin2_id"]))
        e = ws[i] * ws[j] * r["count"]
        g = float(r["balanced"])
        if not ((math.isnan(e) and math.isnan(g)) or (not math.isnan(e) and not math.isnan(g) and abs(e - g) <= 1e-9 * max(1, abs(e)))):
            raise OracleFailure(f"dump -b row ({i},{j}): balanced {g}, count * weights = {e}")
        res.append([int(r["count"]), g])
    return res


CHECKS.append(
    Check("dump_balanced", lambda tier: [dict(n=3, K=2)] if tier == "quick" else [dict(n=3, K=2), dict(n=4, K=3)], dumpb_sym, dumpb_real, labels=("nan_weight",),
          doc="cooler dump -b (with and without --join / --fill-lower): the `balanced` column == count * weight[bin1] * weight[bin2], NaN iff a bin is masked",
          bounds=dict(quick="n=3, K=2, weights real or NaN", thorough="n=4, K=3"), stubs=("E9 to_csv row recorder",), timeout=1800, split_depth=6))
MUTANTS.append(dict(name="dump -b uses weight1 twice", file="cli/dump.py", old='            chunk["balanced"] = df["weight1"] * df["weight2"] * chunk["count"]',
                    new='            chunk["balanced"] = df["weight1"] * df["weight1"] * chunk["count"]', checks=["dump_balanced"]))
