"""shared pieces of the balancing harnesses (C10, C11)"""
from __future__ import annotations

import math

import numpy as np

from .common import *  # noqa: F401,F403
from .common import sym_pixels, pixels_from_inputs, scratch_file, symcooler, sym_int, sym_bool, concretize
from .model import concrete_bins, build_cooler_sym, build_cooler_real
from engine.symcore import SReal, Inconclusive


def symnp_const(x):
    from engine.symnp import _const_value
    c = _const_value(x)
    if c is None:
        raise Inconclusive("MAD-max reference needs enumerated (concrete) data")
    return c


def chrom_of(layout):
    return [ci for ci, nb in enumerate(layout) for _ in range(nb)]


def make_sym(p):
    from engine import symh5
    symh5.reset()
    sc = symcooler()
    layout, K = p["layout"], p["K"]
    n = sum(layout)
    bins = concrete_bins(layout, "even")
    b1, b2, v = sym_pixels(n, K, True, vlo=1, vhi=p.get("vmax", 6))
    if p.get("concrete_counts", True):
        # the iteration is non-linear in the counts (variance, sqrt): let the solver enumerate the count values
        # (complete within the bound) and keep the pixel positions, thresholds and options symbolic
        v = [concretize(x) for x in v]
    if p.get("concrete_positions", False):
        b1 = [concretize(x) for x in b1]
        b2 = [concretize(x) for x in b2]
    path = scratch_file("bal.cool")
    if p.get("prior"):
        # history: a different collection (other chromosome layout) lived at the same URI and was balanced in this process before
        pl = p["prior"]
        pb = concrete_bins(pl, "even")
        build_cooler_sym(path, pb, [0], [sum(pl) - 1], {"count": [1]}, True)
        sc.balance_cooler(sc.Cooler(path), chunksize=None, cis_only=True, ignore_diags=False, min_nnz=0, min_count=0, mad_max=0, max_iters=1, tol=0.5)
    if p.get("float_counts"):
        # a float64 count column with fractional values (quarters): filters that count non-zeros must not see the magnitudes
        v = [SReal.of(x) / 4 for x in v]
        build_cooler_sym(path, bins, b1, b2, {"count": v}, True, dtypes={"count": "float64"})
    else:
        build_cooler_sym(path, bins, b1, b2, {"count": v}, True)
    return sc, sc.Cooler(path), b1, b2, v


def make_real(p, inputs):
    import cooler
    layout, K = p["layout"], p["K"]
    bins = concrete_bins(layout, "even")
    b1, b2, v = pixels_from_inputs(inputs, K)
    path = scratch_file("bal.cool")
    if p.get("prior"):
        import os
        import warnings
        pl = p["prior"]
        pb = concrete_bins(pl, "even")
        build_cooler_real(path, pb, [0], [sum(pl) - 1], {"count": [1]}, True)
        with warnings.catch_warnings():
            warnings.simplefilter("ignore")
            cooler.balance_cooler(cooler.Cooler(path), chunksize=None, cis_only=True, ignore_diags=False, min_nnz=0, min_count=0, mad_max=0, max_iters=1, tol=0.5)
    if p.get("float_counts"):
        v = [x / 4 for x in v]
        build_cooler_real(path, bins, b1, b2, {"count": v}, True, dtypes={"count": "float64"})
    else:
        build_cooler_real(path, bins, b1, b2, {"count": v}, True)
    return cooler, cooler.Cooler(path), b1, b2, v


def sym_options(p, n):
    """solver-chosen option vector (concretized where the code needs concrete values)"""
    opts = dict(ignore_diags=concretize(sym_int("ignore_diags", 0, 2)) or False,
                min_nnz=sym_int("min_nnz", 0, 3), min_count=sym_int("min_count", 0, p.get("cmax", 6)),
                mad_max=p.get("mad_max", 0), tol=p["tol"], max_iters=p["max_iters"], rescale_marginals=p.get("rescale", True))
    bl = [i for i in range(n) if bool(sym_bool(f"bl{i}"))] if p.get("blacklist") else None
    opts["blacklist"] = bl
    return opts


def real_options(p, n, inputs):
    opts = dict(ignore_diags=inputs["ignore_diags"] or False, min_nnz=inputs["min_nnz"], min_count=inputs["min_count"],
                mad_max=p.get("mad_max", 0), tol=p["tol"], max_iters=p["max_iters"], rescale_marginals=p.get("rescale", True))
    opts["blacklist"] = [i for i in range(n) if inputs.get(f"bl{i}")] if p.get("blacklist") else None
    return opts


def mode_kw(mode):
    return dict(cis_only=(mode == "cis"), trans_only=(mode == "trans"))


def expected_masks(layout, b1, b2, v, opts, mode):
    """reference for the documented bin-level filters (symbolic or concrete):
    returns (filt[i], scope_dead[i]) where scope_dead says no non-zero marginal is left in the bin's scope"""
    n = sum(layout)
    ch = chrom_of(layout)
    K = len(b1)
    diag = opts["ignore_diags"] or 0

    def chrom_at(x):
        return ssum([ite(x == i, ch[i], 0) for i in range(n)])

    d = []
    for q in range(K):
        keep = True
        if diag:
            dist = ite(b1[q] - b2[q] < 0, b2[q] - b1[q], b1[q] - b2[q])
            keep = and_(keep, not_(dist < diag))
        if mode == "cis":
            keep = and_(keep, chrom_at(b1[q]) == chrom_at(b2[q]))
        d.append(ite(keep, v[q], 0))
    nnz = [ssum([ite(d[q] != 0, ite(b1[q] == i, 1, 0) + ite(b2[q] == i, 1, 0), 0) for q in range(K)]) for i in range(n)]
    cnt = [ssum([d[q] * (ite(b1[q] == i, 1, 0) + ite(b2[q] == i, 1, 0)) for q in range(K)]) for i in range(n)]
    mn, mc = opts["min_nnz"], opts["min_count"]
    bl = opts.get("blacklist") or []
    filt = [or_(and_(mn > 0, nnz[i] < mn), and_(mc != 0, cnt[i] < mc), i in bl) for i in range(n)]
    amb = [False] * n
    if opts.get("mad_max"):
        # MAD-max: needs concrete data (log/median of floats). Documented rule: a bin is dropped when the log of its marginal,
        # normalised by the median non-zero marginal of its chromosome, lies more than mad_max median absolute deviations
        # below the median log marginal. A bin whose marginal sits on the cut-off (to 1e-9) is ambiguous in binary64.
        import statistics
        m = [float(symnp_const(x)) for x in cnt]
        for c in set(ch):
            idx = [i for i in range(n) if ch[i] == c]
            nz = [m[i] for i in idx if m[i] > 0]
            if nz:
                med = statistics.median(nz)
                for i in idx:
                    m[i] = m[i] / med
        L = [math.log(x) for x in m if x > 0]
        if L:
            medL = statistics.median(L)
            dev = statistics.median([abs(x - medL) for x in L])
            arg = medL - opts["mad_max"] * dev
            cutoff = math.exp(arg)
            exact = arg == 0.0       # log(1.0) and exp(0.0) are exact in every libm: no rounding band around the cut-off
            for i in range(n):
                if not exact and abs(m[i] - cutoff) <= 1e-9 * cutoff:
                    amb[i] = True
                elif 0 < m[i] < cutoff:
                    # (a bin with a zero marginal has no logarithm; whether it counts as an "outlier" is the same open question as
                    # the status of data-less bins without MAD-max - DESIGN 4/C10 - and is not asserted: it has no live pixel, so no
                    # other bin's status depends on it)
                    filt[i] = True
    # data seen by the iteration: both partners unfiltered (and inter-chromosomal only in trans mode)
    live = []
    for q in range(K):
        c = d[q] != 0
        if mode == "trans":
            c = and_(c, chrom_at(b1[q]) != chrom_at(b2[q]))
        pf = or_(*[and_(b1[q] == i, filt[i]) for i in range(n)], *[and_(b2[q] == i, filt[i]) for i in range(n)])
        live.append(and_(c, not_(pf)))
    touched = [or_(*[and_(live[q], or_(b1[q] == i, b2[q] == i)) for q in range(K)]) for i in range(n)]
    if any(amb):
        # a bin on the MAD cut-off may or may not be dropped in binary64, and its neighbours' status depends on it:
        # nothing is asserted for this data set (every bin reported as 'status not determined')
        return [False] * n, [False] * n, [False] * n
    if mode == "cis":
        dead = [not_(or_(*[touched[j] for j in range(n) if ch[j] == ch[i]])) for i in range(n)]
    else:
        anyt = or_(*touched)
        dead = [not_(anyt)] * n
    return filt, dead, touched


class PermutingMap:
    """stub E7: a map whose results come back in an arbitrary (solver-chosen) order"""

    def __init__(self, env_choice, record=None):
        self.choice = env_choice
        self.calls = 0
        self.record = record

    def __call__(self, f, keys):
        import itertools
        keys = list(keys)
        if self.record is not None:
            self.record.append(keys)
        res = [f(k) for k in keys]
        if len(res) <= 1:
            return res
        perms = list(itertools.permutations(range(len(res))))
        which = self.choice(f"perm{self.calls}", len(perms)) if self.calls == 0 else self._first % len(perms)
        if self.calls == 0:
            self._first = which
        self.calls += 1
        return [res[i] for i in perms[which]]
