"""C07 - merging coolers is the exact element-wise aggregate of the inputs."""
from __future__ import annotations

import numpy as np

from .common import *  # noqa: F401,F403
from .common import (Check, OracleFailure, SymEnv, sym_pixels, pixels_from_inputs, scratch_file, symcooler, known_active)
from engine.symcore import SReal
from .model import (concrete_bins, named_bins, tables_kept_sym, tables_kept_real, build_cooler_sym, build_cooler_real, read_pixels_sym, read_pixels_real, validity_sym, validity_real,
                    sym_bins, bins_frame, real_widths)


def _agg_expected(inputs_tables, a, b, col, how):
    """exact aggregate of column `col` at cell (a, b) over all input records"""
    vals, present = [], []
    for (b1, b2, cols) in inputs_tables:
        for q in range(len(b1)):
            m = and_(b1[q] == a, b2[q] == b)
            vals.append((m, cols[col][q]))
    if how == "sum":
        return ssum([ite(m, x, 0) for m, x in vals])
    if how == "count":
        return ssum([ite(m, 1, 0) for m, x in vals])
    if how == "max":
        acc = None
        for m, x in vals:
            acc = ite(m, x, -10**9) if acc is None else ite(and_(m, x > acc), x, acc)
        return acc
    raise ValueError(how)


def merge_sym(p):
    from engine import symh5
    symh5.reset()
    sc = symcooler()
    layout, Ks, upper, how = p["layout"], p["Ks"], p["upper"], p["agg"]
    n = sum(layout)
    bins = named_bins(layout, p["kind"], p.get("chrom_names"))
    tables, uris = [], []
    for i, K in enumerate(Ks):
        b1, b2, v = sym_pixels(n, K, upper, prefix=f"t{i}_", vlo=p.get("vlo", 1), vhi=p.get("vhi", 9))
        w = [sym_int(f"t{i}_w{q}", p.get("vlo", 1), p.get("vhi", 9)) for q in range(K)]
        wdt = "int64"
        if p.get("mixed") and i == len(Ks) - 1:
            # the last input stores w as float64 with half-integer values: the output column must be wide enough for every input
            w = [SReal.of(x) / 2 for x in w]
            wdt = "float64"
        cols = {"count": v, "w": w}
        tables.append((b1, b2, cols))
        uris.append(build_cooler_sym(scratch_file(f"c07_{i}.cool"), bins, b1, b2, cols, upper, dtypes={"w": wdt}))
    buf = sym_int("mergebuf", 1, sum(Ks) + 1)
    out = scratch_file("c07_out.cool")
    agg = {"w": how} if how != "sum" else None
    cover("empty_input", any(K == 0 for K in Ks))
    cover("shared_pixel", or_(*[and_(x == y, xx == yy) for x, xx in zip(tables[0][0], tables[0][1]) for y, yy in zip(tables[-1][0], tables[-1][1])])
          if len(tables) > 1 and Ks[0] and Ks[-1] else False)
    cover("small_buffer", buf < max(Ks) if max(Ks) > 1 else True)
    if p.get("vlo", 1) <= 0:
        allv = [x for (_, _, c) in tables for x in c["count"]]
        cover("stored_zero", or_(*[x == 0 for x in allv]))
        cover("counts_cancel", or_(*[and_(a1 == c1, a2 == c2, x + y == 0, x != 0) for a1, a2, x in zip(tables[0][0], tables[0][1], tables[0][2]["count"])
                                     for c1, c2, y in zip(tables[-1][0], tables[-1][1], tables[-1][2]["count"])]) if len(tables) > 1 else False)
    if known_active("F14"):
        pass
    sc.merge_coolers(out, uris, mergebuf=buf, columns=["count", "w"], agg=agg)
    for cond, msg in validity_sym(out):
        prove(cond, "merged output: " + msg)
    tables_kept_sym(out, bins, what="merged output")
    pix, attrs = read_pixels_sym(out)
    o1, o2, oc, ow = pix["bin1_id"], pix["bin2_id"], pix["count"], pix["w"]
    conds = []
    for t in range(len(o1)):
        conds.append(oc[t] == _agg_expected(tables, o1[t], o2[t], "count", "sum"))
        conds.append(ow[t] == _agg_expected(tables, o1[t], o2[t], "w", how))
    prove(and_(*conds), "a merged pixel is not the exact aggregate of that pixel over the inputs")
    # nothing missing: every input pixel occurs in the output
    conds = []
    for (b1, b2, cols) in tables:
        for q in range(len(b1)):
            conds.append(or_(*[and_(o1[t] == b1[q], o2[t] == b2[q]) for t in range(len(o1))]))
    prove(and_(*conds), "an input pixel is missing from the merged output")
    prove(attrs["sum"] == ssum([x for (_, _, cols) in tables for x in cols["count"]]), "recorded total differs from the sum of the input totals")
    return dict(pix=pix, sum=attrs["sum"])


def merge_real(p, inputs):
    import cooler
    layout, Ks, upper, how = p["layout"], p["Ks"], p["upper"], p["agg"]
    n = sum(layout)
    bins = named_bins(layout, p["kind"], p.get("chrom_names"))
    uris, tables = [], []
    for i, K in enumerate(Ks):
        b1, b2, v = pixels_from_inputs(inputs, K, prefix=f"t{i}_")
        w = [inputs[f"t{i}_w{q}"] for q in range(K)]
        wdt = "int64"
        if p.get("mixed") and i == len(Ks) - 1:
            w = [x / 2 for x in w]
            wdt = "float64"
        tables.append((b1, b2, v, w))
        uris.append(build_cooler_real(scratch_file(f"c07_{i}.cool"), bins, b1, b2, {"count": v, "w": w}, upper, dtypes={"w": wdt}))
    out = scratch_file("c07_out.cool")
    cooler.merge_coolers(out, uris, mergebuf=inputs["mergebuf"], columns=["count", "w"], agg={"w": how} if how != "sum" else None)
    validity_real(out)
    tables_kept_real(out, bins)
    exp = {}
    for b1, b2, v, w in tables:
        for r, c, x, y in zip(b1, b2, v, w):
            e = exp.setdefault((r, c), [0, None])
            e[0] += x
            e[1] = (1 if how == "count" else y) if e[1] is None else (e[1] + y if how == "sum" else (e[1] + 1 if how == "count" else max(e[1], y)))
    pix, attrs = read_pixels_real(out)
    got = {(r, c): [x, y] for r, c, x, y in zip(pix["bin1_id"], pix["bin2_id"], pix["count"], pix["w"])}
    if got != exp or len(pix["bin1_id"]) != len(exp):
        raise OracleFailure(f"merged pixels {got} differ from the exact aggregate {exp}")
    if int(attrs["sum"]) != sum(sum(t[2]) for t in tables):
        raise OracleFailure("recorded total differs from the sum of the input totals")
    return dict(pix=pix, sum=attrs["sum"])


def _merge_cases(tier):
    out = []
    if tier == "quick":
        specs = [((2,), "fixed", (1, 1)), ((2, 1), "variable", (2, 1)), ((2,), "fixed", (0, 1)), ((3,), "even", (2, 2)), ((2,), "fixed", (1, 1, 1))]
    else:
        specs = [((2,), "fixed", (1, 1)), ((2, 1), "variable", (2, 1)), ((2,), "fixed", (0, 1)), ((2,), "fixed", (1, 0)), ((3,), "even", (2, 2)),
                 ((2, 2), "fixed", (3, 2)), ((2, 2), "variable", (2, 3)), ((2,), "fixed", (1, 1, 1)), ((3,), "even", (2, 1, 2)), ((2, 1), "fixed", (3, 3))]
    for layout, kind, Ks in specs:
        for upper in (True, False):
            for how in ("sum", "max", "count"):
                if how != "sum" and (len(Ks) > 2 or not upper):
                    continue
                if how == "count" and tier == "quick" and list(Ks) != [1, 1] and list(Ks) != [2, 1]:
                    continue
                out.append(dict(layout=list(layout), kind=kind, Ks=list(Ks), upper=upper, agg=how))
    # inputs whose value column has different dtypes (int64 then float64, and the reverse order)
    out.append(dict(layout=[2], kind="fixed", Ks=[1, 1], upper=True, agg="sum", mixed=True))
    out.append(dict(layout=[2], kind="fixed", Ks=[1, 1, 1], upper=True, agg="sum", mixed=True))
    # chromosome names whose order in the inputs is not the lexicographic one
    out.append(dict(layout=[1, 2], kind="variable", Ks=[1, 1], upper=True, agg="sum", chrom_names=["chr2", "chr10"]))
    # signed values: explicit zeros and counts that cancel across inputs are pixels like any other (every requested column is kept)
    out.append(dict(layout=[2], kind="fixed", Ks=[1, 1], upper=True, agg="sum", vlo=-2, vhi=2))
    out.append(dict(layout=[2], kind="fixed", Ks=[1, 1], upper=False, agg="max", vlo=-2, vhi=2))
    return out


# ---------------------------------------------------------------------------
# values near the limits of the value dtype: stored value == exact aggregate, or an error
# ---------------------------------------------------------------------------
def overflow_sym(p):
    from engine import symh5
    symh5.reset()
    sc = symcooler()
    bins = concrete_bins([2], "even")
    src, dst = p.get("src", "int32"), p.get("dst")
    hi = np.iinfo(dst or src).max
    smax = np.iinfo(src).max
    v0, v1 = sym_int("v0", 1, smax), sym_int("v1", 1, smax)
    if known_active("F12"):
        assume(v0 + v1 <= hi)
    u0 = build_cooler_sym(scratch_file("c07o_0.cool"), bins, [0], [1], {"count": [v0]}, True, dtypes={"count": src})
    u1 = build_cooler_sym(scratch_file("c07o_1.cool"), bins, [0], [1], {"count": [v1]}, True, dtypes={"count": src})
    out = scratch_file("c07o_out.cool")
    cover("exceeds_int32", v0 + v1 > hi)
    try:
        sc.merge_coolers(out, [u0, u1], mergebuf=10, **({"dtypes": {"count": np.dtype(dst)}} if dst else {}))
    except (ValueError, OverflowError):
        prove(v0 + v1 > hi, "merge refused although the aggregate fits the output type")
        return ["raises", "ValueError"]
    pix, attrs = read_pixels_sym(out)
    prove(pix["count"][0] == v0 + v1, "stored value silently differs from the exact aggregate (does not fit the column type)")
    return pix["count"]


def overflow_real(p, inputs):
    import cooler
    bins = concrete_bins([2], "even")
    v0, v1 = inputs["v0"], inputs["v1"]
    src, dst = p.get("src", "int32"), p.get("dst")
    u0 = build_cooler_real(scratch_file("c07o_0.cool"), bins, [0], [1], {"count": [v0]}, True, dtypes={"count": src})
    u1 = build_cooler_real(scratch_file("c07o_1.cool"), bins, [0], [1], {"count": [v1]}, True, dtypes={"count": src})
    out = scratch_file("c07o_out.cool")
    try:
        cooler.merge_coolers(out, [u0, u1], mergebuf=10, **({"dtypes": {"count": np.dtype(dst)}} if dst else {}))
    except (ValueError, OverflowError):
        if v0 + v1 <= np.iinfo(dst or src).max:
            raise OracleFailure("merge refused although the aggregate fits the output type")
        return ["raises", "ValueError"]
    pix, attrs = read_pixels_real(out)
    if pix["count"][0] != v0 + v1:
        raise OracleFailure(f"stored value {pix['count'][0]} silently differs from the exact aggregate {v0 + v1} (int32 column)")
    return pix["count"]


# ---------------------------------------------------------------------------
# incompatible inputs are refused: bin tables with symbolic widths
# ---------------------------------------------------------------------------
def compat_sym(p):
    from engine import symh5, sympd
    symh5.reset()
    sc = symcooler()
    layout = p["layout"]
    binsA, wA = sym_bins(layout, p["wmax"], prefix="a", shape=p.get("shape", "any"), b=p.get("b"))
    binsB, wB = sym_bins(layout, p["wmax"], prefix="b", shape=p.get("shape", "any"), b=p.get("b"), names=p.get("namesB"))
    same = and_(*[x == y for ws, vs in zip(wA, wB) for x, y in zip(ws, vs)]) if not p.get("namesB") else False
    upA = p["upperA"]
    upB = p["upperB"]
    uA = build_cooler_sym(scratch_file("c07c_a.cool"), binsA, [], [], {"count": []}, upA)
    uB = build_cooler_sym(scratch_file("c07c_b.cool"), binsB, [], [], {"count": []}, upB)
    # non-empty so that the merge itself has work to do
    cover("tables_differ", not_(same))
    cover("tables_equal", same)
    try:
        sc.merge_coolers(scratch_file("c07c_out.cool"), [uA, uB], mergebuf=10)
    except (ValueError, TypeError) as e:   # any refusal counts; pandas refuses differently labelled categoricals with TypeError
        if "No objects to concatenate" in str(e):
            # all-empty inputs reach the concat of an empty epoch (finding F14); compatibility was accepted
            prove(and_(same, upA == upB), "inputs with different bin tables or storage modes were accepted for merging")
            return ["accepted"]
        prove(or_(not_(same), upA != upB), "compatible inputs were refused")
        return ["raises", "ValueError"]
    prove(and_(same, upA == upB), "inputs with different bin tables or storage modes were accepted for merging")
    return ["accepted"]


def compat_real(p, inputs):
    import cooler
    import pandas as pd
    layout = p["layout"]
    wA = real_widths(inputs, layout, p.get("shape", "any"), p.get("b"), prefix="a")
    wB = real_widths(inputs, layout, p.get("shape", "any"), p.get("b"), prefix="b")
    binsA, binsB = bins_frame(layout, wA, pd), bins_frame(layout, wB, pd, p.get("namesB"))
    same = wA == wB and p["upperA"] == p["upperB"] and not p.get("namesB")
    uA = build_cooler_real(scratch_file("c07c_a.cool"), binsA, [], [], {"count": []}, p["upperA"])
    uB = build_cooler_real(scratch_file("c07c_b.cool"), binsB, [], [], {"count": []}, p["upperB"])
    try:
        cooler.merge_coolers(scratch_file("c07c_out.cool"), [uA, uB], mergebuf=10)
    except (ValueError, TypeError) as e:
        if "No objects to concatenate" in str(e):
            if not same:
                raise OracleFailure("inputs with different bin tables or storage modes were accepted for merging")
            return ["accepted"]
        if same:
            raise OracleFailure("compatible inputs were refused")
        return ["raises", "ValueError"]
    if not same:
        raise OracleFailure("inputs with different bin tables or storage modes were accepted for merging")
    return ["accepted"]


def _compat_cases(tier):
    out = []
    lays = [(2,), (1, 2)] if tier == "quick" else [(2,), (1, 2), (3,), (2, 2), (1, 1)]
    for lay in lays:
        out.append(dict(layout=list(lay), wmax=3, upperA=True, upperB=True))
    out.append(dict(layout=[2], wmax=2, upperA=True, upperB=False))
    # same lengths and bin size, different / swapped chromosome names (fixed-width and variable tables)
    out.append(dict(layout=[2, 2], wmax=2, shape="fixed", b=2, upperA=True, upperB=True, namesB=["c1", "c0"]))
    out.append(dict(layout=[2, 1], wmax=2, shape="fixed", b=2, upperA=True, upperB=True, namesB=["c0", "zz"]))
    out.append(dict(layout=[1, 2], wmax=2, upperA=True, upperB=True, namesB=["c1", "c0"]))
    return out


CHECKS = [
    Check("merge", _merge_cases, merge_sym, merge_real, labels=("empty_input", "shared_pixel", "small_buffer", "stored_zero", "counts_cancel"),
          doc="merge_coolers on k arbitrary valid inputs (built directly in the store), symbolic buffer size: per-pixel exact aggregate, "
              "nothing missing/extra, schema-valid output, total = sum of totals",
          bounds=dict(quick="k<=3 inputs, K<=2 pixels each, n<=3 bins, mergebuf 1..total+1, sum and max", thorough="k<=3, K<=3 each, n<=4"),
          stubs=("E3 in-memory h5py model", "E4 pandas models (concat, groupby-aggregate)", "inputs constructed in the store under the C02 invariant"),
          timeout=3400, split_depth=9),
    Check("overflow", lambda tier: [dict(), dict(src="uint32", dst="int32"), dict(src="int32", dst="int16"), dict(src="uint16", dst="uint16")], overflow_sym, overflow_real, labels=("exceeds_int32",) if not known_active("F12") else (),
          doc="two int32 inputs with arbitrary positive counts: stored aggregate == exact sum or the merge is refused",
          bounds=dict(values="full positive int32 range")),
    Check("compat", _compat_cases, compat_sym, compat_real, labels=("tables_differ", "tables_equal"),
          doc="merge accepted <=> bin tables (symbolic widths) and storage modes are equal",
          bounds=dict(quick="<=2 chromosomes, <=3 bins, widths 1..3")),
]

MUTANTS = [
    dict(name="revert F14 fix (empty epoch -> concat([]))", file="_reduce.py", old="            if not frames:\n", new="            if False:\n", checks=["merge"]),
    dict(name="epoch start not advanced", file="_reduce.py", old="            starts = stops\n", new="            pass\n", checks=["merge"]),
    dict(name="single-record slices dropped", file="_reduce.py", old="                if (stop - start) > 0\n", new="                if (stop - start) > 1\n", checks=["merge"]),
    dict(name="default aggregation max instead of sum", file="_reduce.py", old='        self.agg = {col: "sum" for col in self.columns}\n        if agg is not None:\n            self.agg.update(agg)\n\n        # check compatibility',
         new='        self.agg = {col: "max" for col in self.columns}\n        if agg is not None:\n            self.agg.update(agg)\n\n        # check compatibility', checks=["merge"]),
    dict(name="breakpoints: buffer counted from 0 each epoch", file="_reduce.py", old="            min(combined_start + bufsize, combined_nnz),", new="            min(bufsize, combined_nnz),", checks=["merge"], expect="caught"),
    dict(name="mixed storage modes accepted", file="_reduce.py", old='        raise ValueError("Cannot merge symmetric and non-symmetric coolers.")', new="        symmetric_upper = True", checks=["compat"]),
    dict(name="chromsizes compatibility not checked", file="_reduce.py", old="                if not np.all(coolers[i].chromsizes == chromsizes):", new="                if False:", checks=["compat"]),
    dict(name="variable bins compatibility not checked", file="_reduce.py", old="                if (len(bins2) != len(bins)) or not np.all(bins2 == bins):", new="                if False:", checks=["compat"]),
    dict(name="revert F12 fix (overflow check)", file="create/_create.py", old="                        if data.min() < info.min or data.max() > info.max:", new="                        if False:", checks=["overflow"]),
]


# ---------------------------------------------------------------------------
# scale case: hundreds of inputs (more than any plausible internal fan-in limit), a non-decomposable aggregate
# ---------------------------------------------------------------------------
def many_inputs_body(env, p):
    """k inputs over two bins, each holding the pixel (0,1) (every 7th one also (1,1)); the extra column w is aggregated with `mean`,
    which cannot be computed batch-wise. w of the first and the last input is symbolic, the others are fixed: the merged value is the mean
    over *all* inputs. A scale case (one path per solver choice), reported as such."""
    from .common import vals
    env.reset()
    k = p["k"]
    bins = concrete_bins([2], "even")
    a, z = env.int("w_first", 1, 9), env.int("w_last", 1, 9)
    uris, ws, extra = [], [], 0
    for i in range(k):
        w = a if i == 0 else z if i == k - 1 else 1 + (i * 3) % 7
        ws.append(w)
        two = (i % 7 == 3)
        extra += 1 if two else 0
        uris.append(env.build_cooler(scratch_file(f"c07m_{i}.cool"), bins, [0, 1] if two else [0], [1, 1] if two else [1], {"count": [1, 1] if two else [1], "w": [w, 2] if two else [w]},
                                     True, dtypes={"w": "float64"}))
    out = scratch_file("c07m_out.cool")
    env.cooler.merge_coolers(out, uris, mergebuf=p["mergebuf"], columns=["count", "w"], agg={"w": "mean"})
    tab = env.cooler.Cooler(out).pixels()[:]
    env.check(len(tab) == 2, f"merged table has {len(tab)} pixels, expected 2")
    cnt, wv = vals(tab["count"]), vals(tab["w"])
    total = ssum(ws) if env.symbolic else sum(ws)
    env.check(and_(cnt[0] == k, cnt[1] == extra), "merged counts are not the sums over all inputs")
    d = wv[0] * k - total
    env.check(and_(d < 1e-6, d > -1e-6), f"merged mean of w over {k} inputs is not the mean of all input values")
    return [int(cnt[0]) if not env.symbolic else cnt[0]]


many_sym, many_real = both(many_inputs_body)

CHECKS.append(Check("many_inputs", lambda tier: [dict(k=205, mergebuf=1000)] if tier == "quick" else [dict(k=205, mergebuf=1000), dict(k=260, mergebuf=50), dict(k=1030, mergebuf=100000)],
                    many_sym, many_real,
                    doc="scale case: 205 (thorough: up to 1030) input coolers merged with agg=mean on an extra column whose value in the first and the "
                        "last input is symbolic: the stored value is the mean over all inputs (a batch-wise merge cannot produce it)",
                    bounds=dict(quick="205 inputs of 1-2 pixels over 2 bins", thorough="up to 1030 inputs"),
                    stubs=("E3", "E4 groupby-aggregate mean over exact reals"), outside=("other input counts; supports beyond two pixels",), timeout=2400))
