"""Shared helpers for the property harnesses."""
from __future__ import annotations

import itertools
import os
import shutil
import tempfile

import z3

from engine.runner import Check, OracleFailure, known_active  # noqa: F401
from engine.symcore import (CTX, SBool, SInt, SReal, _e, _ei, and_, assume, concretize, cover, ite, not_, note,
                            or_, prove, ssum, sym_bool, sym_int, sym_real, fresh_int, Inconclusive)  # noqa: F401
from engine.symnp import SArr  # noqa: F401


def symcooler():
    from engine import loader
    loader.install()
    import symcooler as sc
    return sc


# ---------------------------------------------------------------------------
# scratch space for real-stack runs
# ---------------------------------------------------------------------------
_SCRATCH = None


def scratch():
    global _SCRATCH
    if _SCRATCH is None:
        root = os.environ.get("VERIF_SCRATCH")
        if root and os.path.isdir(root):
            _SCRATCH = os.path.join(root, f"w{os.getpid()}")
            os.makedirs(_SCRATCH, exist_ok=True)
        else:
            base = "/dev/shm" if os.path.isdir("/dev/shm") else None
            _SCRATCH = tempfile.mkdtemp(prefix="verif-", dir=base)
            import atexit
            atexit.register(shutil.rmtree, _SCRATCH, True)
    return _SCRATCH


def scratch_file(name="t.cool"):
    p = os.path.join(scratch(), name)
    if os.path.exists(p):
        os.remove(p)
    return p


# ---------------------------------------------------------------------------
# dict-based stand-in for an HDF5 group (same idea as tests/conftest.py::MockGroup)
# ---------------------------------------------------------------------------
class MockGroup(dict):
    def __init__(self, d=None, attrs=None, name="/"):
        super().__init__()
        self.attrs = attrs if attrs is not None else {}
        self.name = name
        self.file = self
        self.mode = "r"
        self.filename = "mock.cool"
        for k, v in (d or {}).items():
            dict.__setitem__(self, k, MockGroup(v, name=name.rstrip("/") + "/" + k) if isinstance(v, dict) and not isinstance(v, MockGroup) else v)

    def __getitem__(self, path):
        cur = self
        if set(path) == {"/"}:
            return self
        for item in path.strip("/").split("/"):
            cur = dict.__getitem__(cur, item)
        return cur

    def __contains__(self, path):
        try:
            self[path]
            return True
        except KeyError:
            return False


# ---------------------------------------------------------------------------
# symbolic pixel tables
# ---------------------------------------------------------------------------
def sym_pixels(n, K, upper, vlo=1, vhi=9, prefix=""):
    """K symbolic pixel records over n bins, strictly sorted by (bin1, bin2); upper => bin1 <= bin2.
    Returns (b1, b2, v) lists of SInt."""
    b1 = [sym_int(f"{prefix}r{p}", 0, n - 1) for p in range(K)]
    b2 = [sym_int(f"{prefix}c{p}", 0, n - 1) for p in range(K)]
    v = [sym_int(f"{prefix}v{p}", vlo, vhi) for p in range(K)]
    for p in range(K):
        if upper:
            CTX.add(b1[p].e <= b2[p].e)
        if p:
            CTX.add(z3.Or(b1[p - 1].e < b1[p].e, z3.And(b1[p - 1].e == b1[p].e, b2[p - 1].e < b2[p].e)))
    return b1, b2, v


def csr_offsets(b1, n):
    """bin1_offset[k] = #{p : bin1_p < k}, k = 0..n, as closed-form symbolic ints"""
    return [ssum([ite(x < k, 1, 0) for x in b1]) if b1 else 0 for k in range(n + 1)]


def pixels_from_inputs(inputs, K, prefix=""):
    return ([inputs[f"{prefix}r{p}"] for p in range(K)], [inputs[f"{prefix}c{p}"] for p in range(K)],
            [inputs[f"{prefix}v{p}"] for p in range(K)])


# ---------------------------------------------------------------------------
# real-stack helpers
# ---------------------------------------------------------------------------
def uniform_bins(nbins_per_chrom, binsize=10):
    import pandas as pd
    rows = []
    for ci, nb in enumerate(nbins_per_chrom):
        for k in range(nb):
            rows.append((f"c{ci}", k * binsize, (k + 1) * binsize))
    return pd.DataFrame(rows, columns=["chrom", "start", "end"])


def bins_from_widths(widths_per_chrom):
    """widths_per_chrom: list (per chromosome) of lists of bin widths"""
    import pandas as pd
    rows = []
    for ci, ws in enumerate(widths_per_chrom):
        pos = 0
        for w in ws:
            rows.append((f"c{ci}", pos, pos + w))
            pos += w
    return pd.DataFrame(rows, columns=["chrom", "start", "end"])


def make_real_cooler(path, bins, b1, b2, v, symmetric_upper=True, extra=None, dtypes=None, **kw):
    import cooler
    import pandas as pd
    import numpy as np
    data = {"bin1_id": np.array(b1, dtype=np.int64), "bin2_id": np.array(b2, dtype=np.int64),
            "count": np.array(v, dtype=np.int32 if (dtypes or {}).get("count") is None else dtypes["count"])}
    for k, col in (extra or {}).items():
        data[k] = col
    pix = pd.DataFrame(data)
    cooler.create_cooler(path, bins, pix, symmetric_upper=symmetric_upper, dtypes=dtypes,
                         columns=list(data)[2:] if extra else None, **kw)
    return path


def dense_ref(n, b1, b2, v, upper):
    import numpy as np
    m = np.zeros((n, n), dtype=np.int64 if all(isinstance(x, int) for x in v) else float)
    for r, c, x in zip(b1, b2, v):
        m[r, c] += x
        if upper and r != c:
            m[c, r] += x
    return m


def compositions(total, parts):
    """all ways to write total as an ordered sum of `parts` positive ints"""
    if parts == 1:
        yield (total,)
        return
    for first in range(1, total - parts + 2):
        for rest in compositions(total - first, parts - 1):
            yield (first,) + rest


def layouts(max_chroms, max_bins):
    """all tuples (bins per chromosome) with <= max_chroms chromosomes and <= max_bins bins in total"""
    out = []
    for nc in range(1, max_chroms + 1):
        for tot in range(nc, max_bins + 1):
            out.extend(compositions(tot, nc))
    return out


# ---------------------------------------------------------------------------
# one harness body, two execution modes
# ---------------------------------------------------------------------------
class SymEnv:
    """the body runs on cooler's source loaded as `symcooler`, inputs are solver variables"""
    symbolic = True

    def __init__(self):
        self.cooler = symcooler()
        from engine import symnp
        self.np = symnp

    def mod(self, name):
        import importlib
        symcooler()
        return importlib.import_module("symcooler." + name if name else "symcooler")

    def int(self, name, lo=None, hi=None):
        return sym_int(name, lo, hi)

    def bool(self, name):
        return sym_bool(name)

    def real(self, name, lo=None, hi=None, nan=False):
        return sym_real(name, lo, hi, nan)

    def choice(self, name, n):
        """concrete index 0..n-1 chosen by the solver (forks over all feasible values)"""
        return concretize(sym_int(name, 0, n - 1))

    def assume(self, c):
        assume(c)

    def check(self, c, msg):
        return prove(c, msg)

    def cover(self, label, c=True):
        cover(label, c)

    def array(self, items, dtype="int64"):
        return SArr(list(items), dtype)

    def fail(self, msg):
        prove(False, msg)


class RealEnv:
    """the same body on the installed cooler with concrete inputs taken from a solver model"""
    symbolic = False

    def __init__(self, inputs):
        import cooler
        import numpy
        self.cooler = cooler
        self.np = numpy
        self.inputs = inputs

    def mod(self, name):
        import importlib
        return importlib.import_module("cooler." + name if name else "cooler")

    def int(self, name, lo=None, hi=None):
        return self.inputs[name]

    def bool(self, name):
        return bool(self.inputs[name])

    def real(self, name, lo=None, hi=None, nan=False):
        return float(self.inputs[name])

    def choice(self, name, n):
        return self.inputs[name]

    def assume(self, c):
        if not c:
            raise AssertionError("replayed inputs violate a harness assumption")

    def check(self, c, msg):
        if not c:
            raise OracleFailure(msg)
        return True

    def cover(self, label, c=True):
        pass

    def array(self, items, dtype="int64"):
        import numpy
        return numpy.array(list(items), dtype=dtype)

    def fail(self, msg):
        raise OracleFailure(msg)


def both(body):
    """Check.sym / Check.real from one body(env, params)"""
    return (lambda p: body(SymEnv(), p)), (lambda p, inputs: body(RealEnv(inputs), p))


def eq_(a, b):
    """equality usable on symbolic and concrete values (never forks)"""
    return a == b


def count_true(conds):
    return ssum([ite(c, 1, 0) if isinstance(c, SBool) else int(bool(c)) for c in conds])


# -- environment-neutral builders (added to both Env classes) ---------------------------------------
def _sym_build(self, path, bins, b1, b2, cols, upper=True, group="/", dtypes=None, mode="w"):
    from .model import build_cooler_sym
    return build_cooler_sym(path, bins, b1, b2, cols, upper, group, dtypes, mode)


def _real_build(self, path, bins, b1, b2, cols, upper=True, group="/", dtypes=None, mode="w"):
    from .model import build_cooler_real
    return build_cooler_real(path, bins, b1, b2, cols, upper, group, dtypes, mode)


def _sym_reset(self):
    from engine import symh5
    symh5.reset()


def _sym_pd(self):
    from engine import sympd
    return sympd


def _real_pd(self):
    import pandas
    return pandas


def _sym_h5(self):
    from engine import symh5
    return symh5


def _real_h5(self):
    import h5py
    return h5py


SymEnv.build_cooler = _sym_build
RealEnv.build_cooler = _real_build
SymEnv.reset = _sym_reset
RealEnv.reset = lambda self: None
SymEnv.pd = property(_sym_pd)
RealEnv.pd = property(_real_pd)
SymEnv.h5 = property(_sym_h5)
RealEnv.h5 = property(_real_h5)


def env_pixels(env, n, K, upper=True, prefix="", vlo=1, vhi=9):
    if env.symbolic:
        return sym_pixels(n, K, upper, vlo, vhi, prefix)
    return pixels_from_inputs(env.inputs, K, prefix)


def vals(x):
    """python list of a Series / array / index, symbolic or real"""
    if hasattr(x, "values") and not isinstance(x, dict):
        x = x.values
    if hasattr(x, "arr"):
        x = x.arr
    return list(x)
