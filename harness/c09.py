"""C09 - every zoom level of a multires file equals direct coarsening of its base."""
from __future__ import annotations

import numpy as np

from .common import *  # noqa: F401,F403
from .common import (Check, OracleFailure, SymEnv, RealEnv, both, sym_pixels, pixels_from_inputs, scratch_file, symcooler, known_active)
from .model import (build_cooler_sym, build_cooler_real, read_pixels_sym, read_pixels_real, validity_sym, validity_real, tables_kept_sym,
                    tables_kept_real)
from engine.symnp import _sel
from engine.symcore import SReal


# ---------------------------------------------------------------------------
# get_multiplier_sequence on symbolic resolution sets
# ---------------------------------------------------------------------------
def multiplier_body(env, p):
    red = env.mod("_reduce")
    nt, nb, vmax = p["nt"], p["nb"], p["vmax"]
    targets = [env.int(f"t{i}", 1, vmax) for i in range(nt)]
    bases = [env.int(f"b{i}", 1, vmax) for i in range(nb)]
    derivable = and_(*[or_(*[t % b == 0 for b in bases]) for t in targets])
    env.cover("base_divides_base", or_(*[and_(x != y, y % x == 0) for x in bases for y in bases]) if nb > 1 else False)
    env.cover("not_derivable", not_(derivable))
    env.cover("mixed_predecessors", True)
    try:
        resn, pred, mult = red.get_multiplier_sequence(list(targets), list(bases))
    except ValueError:
        env.check(not_(derivable), "a resolution set in which every target is a multiple of a base was refused")
        return ["raises", "ValueError"]
    env.check(derivable, "a target that is not an integer multiple of any base was accepted")
    resn, pred, mult = list(resn), list(pred), list(mult)
    m = len(resn)
    conds = []
    # every requested and every base resolution appears exactly once, ascending
    for a, b in zip(resn[:-1], resn[1:]):
        conds.append(a < b)
    for x in list(targets) + list(bases):
        conds.append(or_(*[r == x for r in resn]))
    for r in resn:
        conds.append(or_(*[r == x for x in list(targets) + list(bases)]))
    env.check(and_(*conds), "resolution list is not the sorted union of targets and bases")
    conds = []
    for i in range(m):
        is_base = or_(*[resn[i] == b for b in bases])
        pi = pred[i]
        if bool(pi == -1):
            conds.append(is_base)
        else:
            pi = int(pi)
            conds.append(and_(0 <= pi, pi < i, resn[pi] * mult[i] == resn[i], mult[i] >= 2))
            # a base level must stay a copy of its source, never be re-derived (it would be overwritten)
            conds.append(not_(is_base))
    env.check(and_(*conds), "a level's predecessor/multiplier is wrong, or a base resolution is given a predecessor "
                            "(zoomify would overwrite the copied base by a coarsening)")
    return [resn, pred, mult]


mult_sym, mult_real = both(multiplier_body)


def progression_body(env, p):
    red = env.mod("_reduce")
    style = p["style"]
    start = env.int("start", 1, p["smax"])
    stop = env.int("stop", 0, p["smax"] * p["span"])
    seq = list(red.preferred_sequence(start, stop, style))
    env.cover("empty", start > stop)
    env.cover("long", len(seq) >= 4)
    mults = [2 ** i for i in range(12)] if style == "binary" else sorted(m * 10 ** e for e in range(5) for m in (1, 2, 5))
    exp = [start * m for m in mults]
    keep = [x for x in exp if bool(x <= stop)]
    if len(seq) != len(keep):
        env.fail(f"progression has {len(seq)} members, expected {len(keep)}")
    else:
        env.check(and_(*[a == b for a, b in zip(seq, keep)]), "progression is not start*{ratio steps} clipped to the maximum")
    return seq


prog_sym, prog_real = both(progression_body)


# ---------------------------------------------------------------------------
# zoomify_cooler end to end (real coarsen_cooler underneath)
# ---------------------------------------------------------------------------
ONE_CHROM = [False]


def _bins(total, w):
    import pandas as pd
    rows = []
    # two chromosomes whose order in the file is not the lexicographic order of their names
    for c, L in ((("chr2", total),) if ONE_CHROM[0] else (("chr2", total), ("chr10", total // 2 + 1))):
        pos = 0
        while pos < L:
            rows.append((c, pos, min(pos + w, L)))
            pos += w
    return pd.DataFrame(rows, columns=["chrom", "start", "end"])


def _newid(bins_base, bins_target):
    """map each base bin to the target bin containing its start"""
    out = []
    tb = bins_target.reset_index(drop=True)
    for c, s in zip(bins_base["chrom"], bins_base["start"]):
        idx = tb.index[(tb["chrom"] == c) & (tb["start"] <= s) & (tb["end"] > s)]
        out.append(int(idx[0]))
    return out


def zoomify_sym(p):
    from engine import symh5
    symh5.reset()
    sc = symcooler()
    total, bases, targets, K = p["total"], p["bases"], p["targets"], p["K"]
    ONE_CHROM[0] = bool(p.get("one_chrom"))
    srcs = {}
    uris = []
    for bi, w in enumerate(bases):
        bins = _bins(total, w)
        b1, b2, v = sym_pixels(len(bins), K, True, prefix=f"s{bi}_")
        if p.get("one_chrom"):
            for x_ in b1:
                CTX.add(x_.e == 0)   # the dtype question does not depend on the row: keep the case small
        x = [sym_int(f"s{bi}_x{q}", 1, 9) for q in range(K)]
        xdt = "int64"
        if p.get("mixed") and bi == len(bases) - 1:
            x = [SReal.of(y) / 2 for y in x]   # this base stores x as float64 halves: levels derived from it must keep them
            xdt = "float64"
        uris.append(build_cooler_sym(scratch_file(f"c09_b{bi}.cool"), bins, b1, b2, {"count": v, "x": x}, True, dtypes={"x": xdt}))
        srcs[w] = (bins, b1, b2, v, x)
    out = scratch_file("c09_out.mcool")
    cs = concretize(sym_int("chunksize", 1, K + 1))
    derivable = all(any(t % b == 0 for b in bases) for t in targets)
    try:
        sc.zoomify_cooler(uris if len(uris) > 1 else uris[0], out, list(targets), cs, columns=["count", "x"])
    except ValueError:
        prove(not derivable, "zoomify refused a resolution set whose members are all multiples of a base")
        return ["raises", "ValueError"]
    prove(derivable, "zoomify accepted a resolution that is not a multiple of any base")
    fo = sc.fileops
    want = sorted(set(targets) | set(bases))
    listing = fo.list_coolers(out)
    prove(listing == [f"/resolutions/{r}" for r in want], f"file does not hold each requested and base resolution exactly once: {listing}")
    prove(fo.is_multires_file(out), "file is not recognised as multi-resolution")
    obs = {}
    for r in want:
        grp = f"/resolutions/{r}"
        for cond, msg in validity_sym(out, grp):
            prove(cond, f"level {r}: " + msg)
        tables_kept_sym(out, _bins(total, r), grp, what=f"level {r}")
        pix, attrs = read_pixels_sym(out, grp)
        obs[str(r)] = pix
        o1, o2, oc, ox = pix["bin1_id"], pix["bin2_id"], pix["count"], pix["x"]
        cands = []
        for b in bases:
            if r % b:
                continue
            if r in bases and b != r:
                continue  # a base level must be the copy of its own source
            bins, b1, b2, v, x = srcs[b]
            newid = _newid(bins, _bins(total, r))
            I = [_sel(newid, q) for q in b1]
            J = [_sel(newid, q) for q in b2]
            conds = []
            for t in range(len(o1)):
                conds.append(oc[t] == ssum([ite(and_(I[q] == o1[t], J[q] == o2[t]), v[q], 0) for q in range(K)]))
                conds.append(ox[t] == ssum([ite(and_(I[q] == o1[t], J[q] == o2[t]), x[q], 0) for q in range(K)]))
            for q in range(K):
                conds.append(or_(*[and_(o1[t] == I[q], o2[t] == J[q]) for t in range(len(o1))]))
            cands.append(and_(*conds))
        prove(or_(*cands), f"level {r} is not the direct coarsening of a base by the ratio of resolutions (base levels: not a faithful copy)")
    return obs


def zoomify_real(p, inputs):
    import cooler
    from cooler import fileops as fo
    total, bases, targets, K = p["total"], p["bases"], p["targets"], p["K"]
    ONE_CHROM[0] = bool(p.get("one_chrom"))
    srcs, uris = {}, []
    for bi, w in enumerate(bases):
        bins = _bins(total, w)
        b1, b2, v = pixels_from_inputs(inputs, K, prefix=f"s{bi}_")
        x = [inputs[f"s{bi}_x{q}"] for q in range(K)]
        xdt = "int64"
        if p.get("mixed") and bi == len(bases) - 1:
            x = [y / 2 for y in x]
            xdt = "float64"
        uris.append(build_cooler_real(scratch_file(f"c09_b{bi}.cool"), bins, b1, b2, {"count": v, "x": x}, True, dtypes={"x": xdt}))
        srcs[w] = (bins, b1, b2, v, x)
    out = scratch_file("c09_out.mcool")
    derivable = all(any(t % b == 0 for b in bases) for t in targets)
    try:
        cooler.zoomify_cooler(uris if len(uris) > 1 else uris[0], out, list(targets), inputs["chunksize"], columns=["count", "x"])
    except ValueError:
        if derivable:
            raise OracleFailure("zoomify refused a resolution set whose members are all multiples of a base")
        return ["raises", "ValueError"]
    if not derivable:
        raise OracleFailure("zoomify accepted a resolution that is not a multiple of any base")
    want = sorted(set(targets) | set(bases))
    listing = fo.list_coolers(out)
    if listing != [f"/resolutions/{r}" for r in want]:
        raise OracleFailure(f"file does not hold each requested and base resolution exactly once: {listing}")
    if not fo.is_multires_file(out):
        raise OracleFailure("file is not recognised as multi-resolution")
    obs = {}
    for r in want:
        grp = f"/resolutions/{r}"
        validity_real(out, grp)
        tables_kept_real(out, _bins(total, r), grp, what=f"level {r}")
        pix, attrs = read_pixels_real(out, grp)
        obs[str(r)] = pix
        if "x" not in pix:
            raise OracleFailure(f"level {r} lacks the requested value column 'x'")
        got = {(a, b): [c, d] for a, b, c, d in zip(pix["bin1_id"], pix["bin2_id"], pix["count"], pix["x"])}
        ok = False
        for b in bases:
            if r % b or (r in bases and b != r):
                continue
            bins, b1, b2, v, x = srcs[b]
            newid = _newid(bins, _bins(total, r))
            exp = {}
            for q in range(K):
                e = exp.setdefault((newid[b1[q]], newid[b2[q]]), [0, 0])
                e[0] += v[q]
                e[1] += x[q]
            ok = ok or (got == exp and len(pix["bin1_id"]) == len(exp))
        if not ok:
            raise OracleFailure(f"level {r} = {got} is not the direct coarsening of a base by the ratio of resolutions")
    return obs


def _zoom_cases(tier):
    out = [dict(total=8, bases=[2], targets=[4, 8], K=1), dict(total=6, bases=[1], targets=[3, 2, 6], K=1),
           dict(total=6, bases=[2, 3], targets=[6], K=1), dict(total=8, bases=[2], targets=[4, 3], K=1),
           dict(total=8, bases=[2, 4], targets=[8], K=1),
           dict(total=16, bases=[4, 8], targets=[16], K=1),   # a pair of bin sizes that a Python set does not iterate in ascending order
           dict(total=12, bases=[2, 3], targets=[4, 6], K=1, mixed=True, one_chrom=True)]   # two bases whose value column has different dtypes
    if tier != "quick":
        out += [dict(total=8, bases=[2], targets=[4, 8], K=2), dict(total=12, bases=[2], targets=[6, 4, 2], K=1), dict(total=12, bases=[2, 3], targets=[6, 4], K=1),
                dict(total=12, bases=[2], targets=[4, 12, 6], K=1), dict(total=12, bases=[3, 2], targets=[12, 6, 4], K=1),
                dict(total=16, bases=[2], targets=[4, 8, 16], K=1), dict(total=12, bases=[1], targets=[2, 3, 6], K=1),
                dict(total=12, bases=[2, 4], targets=[8, 12], K=1), dict(total=20, bases=[10, 5], targets=[20], K=1),
                dict(total=24, bases=[8, 4, 12], targets=[24], K=1)]
    return out


CHECKS = [
    Check("multiplier", lambda tier: ([dict(nt=2, nb=1, vmax=10), dict(nt=2, nb=2, vmax=6), dict(nt=3, nb=1, vmax=6)] if tier == "quick" else
                                [dict(nt=2, nb=1, vmax=24), dict(nt=3, nb=1, vmax=16), dict(nt=2, nb=2, vmax=12), dict(nt=3, nb=2, vmax=8)]),
          mult_sym, mult_real, labels=("base_divides_base", "not_derivable"),
          doc="get_multiplier_sequence on symbolic target and base sets: refusal <=> some target has no dividing base; "
              "chains multiply to r/base; bases keep no predecessor",
          bounds=dict(quick="2-3 targets, 1-2 bases, values 1..6/10", thorough="<=3 targets, <=2 bases, values up to 24"), timeout=1800, split_depth=6),
    Check("progression", lambda tier: [dict(style=s, smax=5 if tier == "quick" else 12, span=40 if tier == "quick" else 120) for s in ("binary", "nice")],
          prog_sym, prog_real, labels=("empty", "long"),
          doc="preferred_sequence == documented progression (ratio 2; 1-2-5) clipped to the maximum",
          bounds=dict(quick="start 1..5, stop <= 40*start range", thorough="start 1..12, stop <= 120*12")),
    Check("zoomify", _zoom_cases, zoomify_sym, zoomify_real,
          doc="zoomify_cooler end to end on symbolic base collections (one or two bases), concrete resolution sets in any order: "
              "layout, recognition, every level == direct coarsening of a base, bases are faithful copies, refusal of non-derivable sets",
          bounds=dict(quick="K<=2 pixels per base, two chromosomes, 5 resolution sets", thorough="10 resolution sets, K=2"),
          stubs=("E3 in-memory h5py model (File mode w truncates, Group.copy deep-copies)", "E4 pandas models"), timeout=3400, split_depth=22),
]

MUTANTS = [
    dict(name="revert F15 fix (base given a predecessor)", file="_reduce.py", old="        if target in bases:\n", new="        if False:\n", checks=["multiplier", "zoomify"]),
    dict(name="revert F5 fix (outfile truncated per base)", file="_reduce.py", old='h5py.File(outfile, "w" if i == 0 else "r+") as dest', new='h5py.File(outfile, "w") as dest', checks=["zoomify"]),
    dict(name="predecessor need not divide", file="_reduce.py", old="            if target % resn[p] == 0:", new="            if True:", checks=["multiplier"]),
    dict(name="non-derivable accepted", file="_reduce.py", old="        if p == -1 and resn[i] not in bases:", new="        if False:", checks=["multiplier"]),
    dict(name="MCOOL tag missing", file="_reduce.py", old='            {"format": "HDF5::MCOOL", "format-version": __format_version_mcool__}', new='            {"format-version": __format_version_mcool__}', checks=["zoomify"]),
    dict(name="zoom level coarsened with wrong factor", file="_reduce.py", old="            mult[i],\n            chunksize,", new="            max(mult[i] - 1, 2),\n            chunksize,", checks=["zoomify"]),
]
