"""C14 - table selectors and bin annotation return the rows and coordinates asked for."""
from __future__ import annotations

import numpy as np

from .common import *  # noqa: F401,F403
from .common import Check, OracleFailure, SymEnv, RealEnv, both, scratch_file, env_pixels, vals, known_active
from .model import sym_bins, bins_frame, real_widths, concrete_bins
from engine.symnp import _sel


def _resolve(env, a, b, n):
    """expected row range of slice(a, b) on n rows (array semantics)"""
    def clamp(x, default):
        if x is None:
            return default
        x2 = ite(x < 0, x + n, x)
        return ite(x2 < 0, 0, ite(x2 > n, n, x2))
    lo, hi = clamp(a, 0), clamp(b, n)
    return lo, ite(hi < lo, lo, hi)


def _bins_with_widths(env, layout, wmax=3):
    if env.symbolic:
        return sym_bins(layout, wmax)
    w = real_widths(env.inputs, layout)
    return bins_frame(layout, w, env.pd), w


def slices_body(env, p):
    env.reset()
    layout, K, table = p["layout"], p["K"], p["table"]
    n = sum(layout)
    bins, widths = _bins_with_widths(env, layout)
    b1, b2, v = env_pixels(env, n, K)
    path = scratch_file("c14.cool")
    env.build_cooler(path, bins, b1, b2, {"count": v})
    if p.get("int_enc"):
        # integer chromosome encoding: bins/chrom stored as plain ids with a pointer to the name table (what create writes when
        # there are too many scaffolds for an HDF5 enum header)
        f = env.h5.File(path, "r+")
        codes = f["bins/chrom"][:]
        del f["bins/chrom"]
        d = f["bins"].create_dataset("chrom", data=env.array([int(c) for c in codes], "int32"))
        d.attrs["enum_path"] = "/chroms/name"
        f.close()
    clr = env.cooler.Cooler(path)
    starts, ends, chrom = [], [], []
    for ci, ws in enumerate(widths):
        pos = 0
        for w in ws:
            starts.append(pos)
            pos = pos + w
            ends.append(pos)
            chrom.append(ci)
    lens = [ssum(ws) if env.symbolic else sum(ws) for ws in widths]
    if table == "bins":
        sel, N = clr.bins(), n
        cols = {"start": starts, "end": ends}
    elif table == "pixels":
        sel, N = clr.pixels(), K
        cols = {"bin1_id": b1, "bin2_id": b2, "count": v}
    else:
        sel, N = clr.chroms(), len(layout)
        cols = {"length": lens}
    if p.get("late_column"):
        # a column stored after this Cooler object was made (what balance_cooler(store=True) or a user writing through clr.open("r+")
        # does): the selectors of the same object return it with the default column set
        f = env.h5.File(path, "r+")
        grp, nm, ln = ("bins", "gc", n) if table == "bins" else ("pixels", "score", K)
        late = [7 + 2 * t for t in range(ln)]
        f[grp].create_dataset(nm, data=np.array(late, dtype=np.int64))
        f.close()
        cols[nm] = late
    single = p.get("single")
    if single:
        # one column picked by name: the selector yields a Series, same rows, same labels
        sel = sel[single]
        names = list(clr.chromnames)
        cols = {single: chrom if single == "chrom" else cols[single]}
    if p["subset"]:
        keep = list(cols)[:1]
        sel = sel[keep]
        cols = {k: cols[k] for k in keep}
    if p["scalar"]:
        s = env.int("s")
        if known_active("F10-C14"):
            env.assume(s >= -N)
        try:
            out = sel[s]
        except IndexError:
            env.check(or_(s < -N, s >= N), "scalar index inside the table was refused")
            return ["raises", "IndexError"]
        env.check(and_(s >= -N, s < N), "scalar index outside [-n, n) was accepted")
        lo = ite(s < 0, s + N, s)
        hi = lo + 1
    else:
        a = None if p["a_none"] else env.int("a")
        b = None if p["b_none"] else env.int("b")
        if known_active("F10-C14"):
            ra = 0 if a is None else ite(a < 0, a + N, a)
            rb = N if b is None else ite(b < 0, b + N, b)
            env.assume(and_(0 <= ra, ra <= N, 0 <= rb, rb <= N, ra <= rb))
        out = sel[a:b]
        lo, hi = _resolve(env, a, b, N)
        env.cover("negative_bound", (a < 0) if a is not None else False)
        env.cover("empty", lo == hi)
    idx = vals(out.index)
    nrows = len(idx)
    if env.symbolic:
        env.check(nrows == hi - lo, "selector returned a different number of rows than the index range")
    elif nrows != hi - lo:
        env.fail(f"selector returned {nrows} rows, the index range has {hi - lo}")
        return None
    conds = [lab == lo + t for t, lab in enumerate(idx)]
    for name, ref in cols.items():
        if hasattr(out, "columns") and name not in list(out.columns):
            env.fail(f"the stored column '{name}' is missing from the rows returned (columns {list(out.columns)})")
            return None
        got = vals(out[name]) if hasattr(out, "columns") else vals(out)
        if name == "chrom":
            got = [names.index(x) if isinstance(x, str) else x for x in got]   # names back to ids for the comparison
        for t in range(nrows):
            conds.append(got[t] == (_sel(ref, lo + t) if isinstance(lo + t, SInt) else ref[int(lo + t)]))
    if p["subset"] and hasattr(out, "columns"):
        env.check(list(out.columns) == list(cols), "column selection returned other columns")
    env.check(and_(*conds), "rows / labels returned are not the stored rows of the index range")
    return dict(index=idx, **{k: ([str(x) for x in vals(out)] if k == "chrom" else vals(out[k]) if hasattr(out, "columns") else vals(out)) for k in cols})


slices_sym, slices_real = both(slices_body)


def _slice_cases(tier):
    out = []
    for table in ("bins", "pixels", "chroms"):
        for subset in (False, True):
            out.append(dict(layout=[2, 1], K=3, table=table, subset=subset, scalar=True))
            for an in (False, True):
                for bn in (False, True):
                    if tier == "quick" and subset and (an or bn):
                        continue
                    out.append(dict(layout=[2, 1], K=3, table=table, subset=subset, scalar=False, a_none=an, b_none=bn))
    if tier != "quick":
        out += [dict(c, layout=[2, 2], K=4) for c in out if c["table"] != "chroms"]
    for table in ("bins", "pixels"):
        out.append(dict(layout=[2, 1], K=2, table=table, subset=False, scalar=False, a_none=True, b_none=False, late_column=True))
    # one column picked by name (Series output), enum and integer chromosome encodings
    for single, int_enc in (("chrom", False), ("chrom", True), ("start", True)):
        out.append(dict(layout=[2, 1], K=1, table="bins", subset=False, scalar=False, a_none=False, b_none=False, single=single, int_enc=int_enc))
    return out


# ---------------------------------------------------------------------------
def annotate_body(env, p):
    env.reset()
    layout, K, form = p["layout"], p["K"], p["form"]
    n = sum(layout)
    bins, widths = _bins_with_widths(env, layout)
    path = scratch_file("c14a.cool")
    env.build_cooler(path, bins, [], [], {"count": []})
    clr = env.cooler.Cooler(path)
    starts, ends, chrom = [], [], []
    for ci, ws in enumerate(widths):
        pos = 0
        for w in ws:
            starts.append(pos)
            pos = pos + w
            ends.append(pos)
            chrom.append(ci)
    # an arbitrary subset of pixels in arbitrary order, with an arbitrary (ascending not required) integer index
    b1 = [env.int(f"p1_{q}", 0, n - 1) for q in range(K)]
    b2 = [env.int(f"p2_{q}", 0, n - 1) for q in range(K)]
    v = [env.int(f"pv{q}", 1, 9) for q in range(K)]
    labels = [10 + 3 * q for q in range(K)]
    if p.get("iloc"):
        # a positional subset of a default-indexed frame: pandas keeps a RangeIndex (reversed / not starting at 0) on it
        pix = env.pd.DataFrame({"bin1_id": env.array(b1, "int64"), "bin2_id": env.array(b2, "int64"), "count": env.array(v, "int32")})
        sl = {"rev": slice(None, None, -1), "tail": slice(1, None), "even": slice(None, None, 2)}[p["iloc"]]
        pix = pix.iloc[sl]
        b1, b2, v, labels = b1[sl], b2[sl], v[sl], list(range(K))[sl]
        K = len(labels)
    else:
        pix = env.pd.DataFrame({"bin1_id": env.array(b1, "int64"), "bin2_id": env.array(b2, "int64"), "count": env.array(v, "int32")},
                               index=np.array(labels))
    if p.get("only_bin2"):
        pix = pix[["bin2_id", "count"]]
    enum = p["enum"]
    if form == "frame":
        bt = clr.bins(convert_enum=enum)[:]
    elif form == "selector":
        bt = clr.bins(convert_enum=enum)
    else:
        lo, hi = env.int("lo", 0, n), env.int("hi", 0, n)
        need_lo = b2 if p.get("only_bin2") else b1 + b2
        env.assume(and_(lo < hi, *[lo <= x for x in need_lo], *[x < hi for x in need_lo]))
        bt = clr.bins(convert_enum=enum)[lo:hi]
        env.cover("partial_offset", lo > 0)
    env.cover("more_bins_than_pixels", len(bt) > K if form != "selector" else n > K)
    env.cover("fewer_bins_than_pixels", len(bt) <= K if form != "selector" else n <= K)
    out = env.cooler.annotate(pix, bt, replace=p["replace"])
    conds = []
    names = [f"c{i}" for i in range(len(layout))]
    sides = ("2",) if p.get("only_bin2") else ("1", "2")
    for side, ids in (("1", b1), ("2", b2)):
        if side not in sides:
            continue
        sfx = side if len(sides) == 2 else ""
        sfx = side  # cooler suffixes whenever the id column is present
        cs, ss, es = out["chrom" + sfx], vals(out["start" + sfx]), vals(out["end" + sfx])
        for t in range(K):
            if enum:
                cc = cs.cat.codes if hasattr(cs, "cat") else None
                code = vals(cc)[t]
            else:
                code = vals(cs)[t]
            conds.append(and_(code == _pick(chrom, ids[t]), ss[t] == _pick(starts, ids[t]), es[t] == _pick(ends, ids[t])))
    cv = vals(out["count"])
    conds += [cv[t] == v[t] for t in range(K)]
    env.check(and_(*conds), "an annotated pixel does not carry the chromosome/start/end of its own bin (or its values changed)")
    env.check(vals(out.index) == labels if not env.symbolic else and_(*[a == b for a, b in zip(vals(out.index), labels)]),
              "annotation changed the pixels' index or order")
    if not p["replace"]:
        env.check(and_(*[a == b for a, b in zip(vals(out["bin2_id"]), b2)]), "bin id column altered")
    else:
        env.check("bin2_id" not in list(out.columns), "replace=True kept the bin id columns")
    return dict(cols=list(out.columns), start=vals(out["start2"]), end=vals(out["end2"]))


def _pick(ref, k):
    return _sel(ref, k) if isinstance(k, SInt) else ref[int(k)]


annotate_sym, annotate_real = both(annotate_body)


def _ann_cases(tier):
    out = []
    sizes = [([2, 1], 2), ([2, 1], 3)] if tier == "quick" else [([2, 1], 2), ([2, 1], 4), ([2, 2], 3), ([3, 2], 5)]
    for layout, K in sizes:
        for form in ("frame", "selector", "partial"):
            for enum in (True, False):
                for replace in (False, True):
                    if tier == "quick" and ((not enum and replace) or (form == "selector" and replace)):
                        continue
                    out.append(dict(layout=layout, K=K, form=form, enum=enum, replace=replace))
    out.append(dict(layout=[2, 1], K=2, form="partial", enum=True, replace=False, only_bin2=True))
    for how in ("rev", "tail", "even"):
        out.append(dict(layout=[2, 1], K=3, form="frame", enum=True, replace=False, iloc=how))
    return out


CHECKS = [
    Check("slices", _slice_cases, slices_sym, slices_real, labels=("negative_bound", "empty"),
          doc="chroms()/bins()/pixels() selectors sliced with symbolic bounds (negative, open, empty, scalar) and column subsets on a cooler with "
              "symbolic table contents: rows and labels == stored rows lo..hi-1",
          bounds=dict(quick="3 bins / 2 chromosomes / 3 pixels, slice bounds unbounded integers or None", thorough="4 bins, 4 pixels"),
          stubs=("E3", "E4"), timeout=1500),
    Check("annotate", _ann_cases, annotate_sym, annotate_real, labels=("more_bins_than_pixels", "fewer_bins_than_pixels", "partial_offset"),
          doc="annotate() on an arbitrary pixel subset in any order against the bin table given whole, as a selector, or as any contiguous part "
              "containing the needed bins; enum and integer chromosome encodings; replace on/off",
          bounds=dict(quick="3 bins with symbolic widths, K in {2,3} pixels (both strategy branches)", thorough="<=5 bins, K<=5"), timeout=2400, split_depth=8),
]

MUTANTS = [
    dict(name="get(): index starts at 0", file="core/_tableops.py", old="        index = np.arange(lo, lo + len(next(iter(data.values()))))", new="        index = np.arange(0, len(next(iter(data.values()))))", checks=["slices", "annotate"]),
    dict(name="annotate: bin2 offset uses ann1 index", file="api.py", old="            ann2.iloc[bin2 - ann2.index[0]]", new="            ann2.iloc[bin2 - ann1.index[0] if 'bin1_id' in columns else bin2]", checks=["annotate"], expect="caught"),
    dict(name="annotate: partial table offset ignored", file="api.py", old="            ann1.iloc[bin1 - ann1.index[0]]", new="            ann1.iloc[bin1]", checks=["annotate"]),
    dict(name="annotate: window max exclusive", file="api.py", old="            bmin, bmax = bin2.min(), bin2.max()", new="            bmin, bmax = bin2.min(), bin2.max() - 1", checks=["annotate"]),
    dict(name="annotate: selector slice end-exclusive", file="api.py", old="            return sel[beg : end + 1 if end is not None else None]", new="            return sel[beg : end if end is not None else None]", checks=["annotate"]),
    dict(name="annotate: output index reset", file="api.py", old="    out.index = pixels.index\n", new="", checks=["annotate"]),
    dict(name="column subset changes rows", file="core/_selectors.py", old="            return self.__class__(key, self._slice, self._fetch, self._shape[0])", new="            return self.__class__(key, lambda f, lo, hi: self._slice(f, lo, max(hi - 1, lo)), self._fetch, self._shape[0])", checks=["slices"]),
]
