"""C11 - balancing depends on the data only, not on chunking or scheduling."""
from __future__ import annotations

import itertools
import math

import numpy as np

from .common import *  # noqa: F401,F403
from .common import Check, OracleFailure, SymEnv, RealEnv
from .balcommon import make_sym, make_real, sym_options, real_options, mode_kw, expected_masks, chrom_of, PermutingMap
from engine.symcore import SReal, SBool


EPS = 1e-9  # concrete sub-computations run in binary64 inside the model as they do in numpy: compare up to rounding


def _close(a, b):
    a, b = SReal.of(a), SReal.of(b)
    return and_(a - b <= EPS, b - a <= EPS)


def _same_real(a, b):
    a, b = SReal.of(a), SReal.of(b)
    return or_(and_(a.isnan(), b.isnan()), and_(not_(a.isnan()), not_(b.isnan()), _close(a, b)))


def _vec(x):
    return list(x.items) if hasattr(x, "items") and not isinstance(x, dict) else [x]


def _check_spans(env_check, recorded, nnz, offsets=None):
    """every recorded key list tiles its range: consecutive, starting at the range start, covering it after clipping to nnz"""
    for keys in recorded:
        if not keys:
            continue
        conds = []
        for (a0, a1), (c0, c1) in zip(keys[:-1], keys[1:]):
            conds.append(a1 == c0)
        for (a0, a1) in keys:
            conds.append(a0 < a1)
        conds.append(keys[-1][1] >= nnz if offsets is None else True)
        env_check(and_(*conds), "pipeline spans overlap, leave a gap or miss the last partial chunk")


def chunks_sym(p):
    sc, clr, b1, b2, v = make_sym(p)
    layout, mode, K = p["layout"], p["mode"], p["K"]
    n = sum(layout)
    opts = sym_options(p, n)
    ref_bias, ref_stats = sc.balance_cooler(clr, chunksize=None, **opts, **mode_kw(mode))
    cs = concretize(sym_int("chunksize", 1, K + 2))
    rec = []
    pm = PermutingMap(lambda name, k: concretize(sym_int(name, 0, k - 1)), record=rec)
    bias, stats = sc.balance_cooler(clr, chunksize=cs, map=pm, **opts, **mode_kw(mode))
    cover("several_chunks", any(len(keys) > 1 for keys in rec))
    cover("last_chunk_partial", K % cs != 0 if K else False)
    if mode != "cis":
        _check_spans(prove, rec, K)
        # every stored pixel index lies in exactly one span after clipping
        for keys in rec:
            cnt = [sum(1 for (a0, a1) in keys if a0 <= q < min(a1, K)) for q in range(K)]
            prove(all(c == 1 for c in cnt), "a stored pixel is visited zero or several times by the split-apply-combine pipeline")
    prove(and_(*[_same_real(a, b) for a, b in zip(ref_bias, bias)]),
          "weights depend on the chunk size or on the completion order of the map")
    conds = []
    for key in ("scale", "var"):
        for a, b in zip(_vec(ref_stats[key]), _vec(stats[key])):
            conds.append(_same_real(a, b))
    for a, b in zip(_vec(ref_stats["converged"]), _vec(stats["converged"])):
        conds.append(a == b if isinstance(a, SBool) or isinstance(b, SBool) else bool(a) == bool(b))
    prove(and_(*conds), "statistics (scale, variance, converged) depend on the chunk size or the map")
    if p.get("repeat"):
        pm2 = PermutingMap(lambda name, k: 0)
        bias2, stats2 = sc.balance_cooler(clr, chunksize=cs, map=pm2, **opts, **mode_kw(mode))
        prove(and_(*[_same_real(a, b) for a, b in zip(bias2, bias)]), "a repeated run gives different weights (state leaks through the pipeline)")
    return dict(nan=[SReal.of(x).isnan() for x in bias], w=[SReal.of(x) for x in bias])


class _RealPermMap:
    def __init__(self, which):
        self.which, self.calls = which, 0

    def __call__(self, f, keys):
        res = [f(k) for k in list(keys)]
        if len(res) <= 1:
            return res
        perms = list(itertools.permutations(range(len(res))))
        w = self.which % len(perms)
        return [res[i] for i in perms[w]]


def chunks_real(p, inputs):
    cooler, clr, b1, b2, v = make_real(p, inputs)
    layout, mode, K = p["layout"], p["mode"], p["K"]
    n = sum(layout)
    opts = real_options(p, n, inputs)
    import warnings
    with warnings.catch_warnings():
        warnings.simplefilter("ignore")
        ref_bias, ref_stats = cooler.balance_cooler(clr, chunksize=None, **opts, **mode_kw(mode))
        bias, stats = cooler.balance_cooler(clr, chunksize=inputs["chunksize"], map=_RealPermMap(inputs.get("perm0", 0)), **opts, **mode_kw(mode))
    if not np.allclose(ref_bias, bias, rtol=1e-9, atol=1e-12, equal_nan=True):
        raise OracleFailure(f"weights depend on chunking/scheduling: {ref_bias.tolist()} vs {bias.tolist()}")
    for key in ("scale", "var"):
        if not np.allclose(np.asarray(ref_stats[key], dtype=float), np.asarray(stats[key], dtype=float), rtol=1e-9, atol=1e-12, equal_nan=True):
            raise OracleFailure(f"stats[{key}] depends on chunking/scheduling")
    if not np.array_equal(np.asarray(ref_stats["converged"]), np.asarray(stats["converged"])):
        raise OracleFailure("stats[converged] depends on chunking/scheduling")
    return dict(nan=[bool(np.isnan(x)) for x in bias], w=[float(x) for x in bias])


def _cases(tier):
    out = []
    if tier == "quick":
        specs = [((3,), 2, "genome", 1, True, True), ((2, 1), 2, "cis", 1, False, False)]
    else:
        specs = [((3,), 3, "genome", 1, False, True), ((1, 2), 2, "trans", 1, True, False), ((2, 1), 3, "cis", 1, False, False), ((1, 2), 3, "trans", 1, True, False),
                 ((3,), 2, "genome", 2, True, False), ((2, 2), 2, "cis", 2, False, False)]
    for layout, K, mode, iters, rescale, repeat in specs:
        out.append(dict(layout=list(layout), K=K, mode=mode, max_iters=iters, tol=0.5, rescale=rescale, repeat=repeat,
                        vmax=1 if tier == "quick" else 2, concrete_positions=True, cmax=2 if tier == "quick" else 3))
    return out


# ---------------------------------------------------------------------------
# one sweep against the documented iterative-correction step on the dense matrix
# ---------------------------------------------------------------------------
def dense_sym(p):
    sc, clr, b1, b2, v = make_sym(p)
    layout, K = p["layout"], p["K"]
    n = sum(layout)
    opts = sym_options(p, n)
    assume(opts["ignore_diags"] >= 1 if not isinstance(opts["ignore_diags"], bool) else False)
    bias, stats = sc.balance_cooler(clr, chunksize=concretize(sym_int("chunksize", 1, K + 1)), **opts)
    filt, dead, touched = expected_masks(layout, b1, b2, v, opts, "genome")
    diag = opts["ignore_diags"]
    # dense symmetric filtered matrix M and one IC sweep from bias0 = 1 - filtered
    M = [[ssum([ite(and_(or_(and_(b1[q] == i, b2[q] == j), and_(b1[q] == j, b2[q] == i)),
                         not_(ite(b1[q] - b2[q] < 0, b2[q] - b1[q], b1[q] - b2[q]) < diag)), v[q], 0) for q in range(K)])
          for j in range(n)] for i in range(n)]
    b0 = [ite(filt[i], 0, 1) for i in range(n)]
    marg = [ssum([b0[i] * b0[j] * M[i][j] for j in range(n)]) for i in range(n)]
    nz = [marg[i] != 0 for i in range(n)]
    cnt = ssum([ite(c, 1, 0) for c in nz])
    tot = ssum([ite(nz[i], marg[i], 0) for i in range(n)])
    conds = []
    for i in range(n):
        w = SReal.of(bias[i])
        # expected: NaN if filtered or nothing left; bias0 / (marg / mean) where marg != 0; 1 where marg == 0 and not filtered
        exp_nan = or_(filt[i], cnt == 0)
        # w * marg_i * cnt == tot   (w = mean / marg_i, mean = tot / cnt), avoiding divisions
        flat = _close(SReal.of(w) * SReal.of(marg[i]) * SReal.of(cnt), SReal.of(tot))
        conds.append(or_(and_(exp_nan, w.isnan()),
                         and_(not_(exp_nan), not_(w.isnan()), or_(and_(nz[i], flat), and_(not_(nz[i]), _close(w, 1))))))
    prove(and_(*conds), "one sweep differs from the iterative-correction step evaluated on the dense matrix")
    return dict(w=[SReal.of(x) for x in bias])


def dense_real(p, inputs):
    cooler, clr, b1, b2, v = make_real(p, inputs)
    layout, K = p["layout"], p["K"]
    n = sum(layout)
    opts = real_options(p, n, inputs)
    import warnings
    with warnings.catch_warnings():
        warnings.simplefilter("ignore")
        bias, stats = cooler.balance_cooler(clr, chunksize=inputs["chunksize"], **opts)
    filt, dead, touched = expected_masks(layout, b1, b2, v, opts, "genome")
    diag = opts["ignore_diags"]
    M = np.zeros((n, n))
    for r, c, x in zip(b1, b2, v):
        if abs(r - c) >= diag:
            M[r, c] += x
            if r != c:
                M[c, r] += x
    b0 = np.array([0.0 if bool(f) else 1.0 for f in filt])
    marg = (M * np.outer(b0, b0)).sum(axis=1)
    nz = marg != 0
    exp = np.full(n, np.nan)
    if nz.any():
        mean = marg[nz].mean()
        for i in range(n):
            if b0[i] == 0:
                continue
            exp[i] = mean / marg[i] if nz[i] else 1.0
    if not np.allclose(exp, bias, rtol=1e-9, atol=1e-12, equal_nan=True):
        raise OracleFailure(f"one sweep gives {bias.tolist()}, dense iterative-correction step gives {exp.tolist()}")
    return dict(w=[float(x) for x in bias])


def _dense_cases(tier):
    sizes = [((3,), 2)] if tier == "quick" else [((3,), 2), ((4,), 2), ((2, 2), 3)]
    out = [dict(layout=list(l), K=K, mode="genome", max_iters=1, tol=0.5, rescale=False, vmax=2, concrete_positions=True, cmax=3) for l, K in sizes]
    # a float64 count column with fractional values (quarters): the non-zero filter counts pixels, not magnitudes
    out.append(dict(layout=[3], K=2, mode="genome", max_iters=1, tol=0.5, rescale=False, vmax=3, concrete_positions=True, cmax=3, float_counts=True))
    return out


CHECKS = [
    Check("chunk_independence", _cases, chunks_sym, chunks_real, labels=("several_chunks", "last_chunk_partial"),
          doc="balance_cooler twice on the same symbolic cooler and option vector: chunksize=None with the builtin map vs a solver-chosen chunk size "
              "with a map returning results in a solver-chosen permutation: weights and statistics equal in exact arithmetic; spans tile the pixel "
              "table, every pixel visited once; a repeated run is identical",
          bounds=dict(quick="n<=3 bins, K=2 pixels (positions and counts 1..2 enumerated by solver forks), chunksize 1..K+1, all permutations of <=3 chunks, 1 sweep",
                      thorough="K=3, up to 2 sweeps"),
          stubs=("E7 unordered parallel map = arbitrary permutation of the results, the same permutation for every pipeline run of one call; no real processes",
                 "weights as exact reals + NaN flag"),
          outside=("real process pools, pickling", "floating-point summation order"), timeout=3000, split_depth=7),
    Check("dense_reference", _dense_cases, dense_sym, dense_real,
          doc="one genome-wide sweep with the diagonal ignored equals the iterative-correction step on the dense symmetric matrix",
          bounds=dict(quick="n=3, K=2, ignore_diags>=1, rescaling off"), timeout=3000, split_depth=7),
]

MUTANTS = [
    dict(name="span edges stop before the last partial chunk", file="_balance.py", old="        edges = np.arange(0, nnz + chunksize, chunksize)", new="        edges = np.arange(0, nnz + 1, chunksize)", checks=["chunk_independence"]),
    dict(name="spans overlap by one", file="_balance.py", old="        spans = list(zip(edges[:-1], edges[1:]))", new="        spans = list(zip(edges[:-1], edges[1:] + 1))", checks=["chunk_independence"]),
    dict(name="reduce keeps only the last chunk", file="parallel.py", old="        return reduce(binop, iter(self.run()), init)", new="        return reduce(lambda a, b: b, iter(self.run()), init)", checks=["chunk_independence"]),
    dict(name="chunkgetter reads one row too many", file="parallel.py", old='                chunk["pixels"] = get(grp["pixels"], lo, hi, as_dict=True)', new='                chunk["pixels"] = get(grp["pixels"], lo, hi + 1, as_dict=True)', checks=["chunk_independence"]),
    dict(name="pipeline state shared between copies", file="parallel.py", old="        other.funcs = list(self.funcs)", new="        other.funcs = self.funcs", checks=["chunk_independence", "dense_reference"], expect="missed"),  # equivalent here: every split() starts a fresh pipe
    dict(name="marginal counts bin2 only", file="_balance.py", old='    marg = np.bincount(pixels["bin1_id"], weights=data, minlength=n) + np.bincount(', new='    marg = 0 * np.bincount(pixels["bin1_id"], weights=data, minlength=n) + np.bincount(', checks=["dense_reference"]),
]
