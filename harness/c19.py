"""C19 - region and URI strings parse to exactly what they denote, or are refused."""
from __future__ import annotations

import fractions
import os
import subprocess
import sys
import time

import z3

from .common import *  # noqa: F401,F403
from .common import Check, OracleFailure, SymEnv, RealEnv, both, symcooler

UNITS = {"": 1, "k": 1000, "K": 1000, "kb": 1000, "Kb": 1000, "KB": 1000, "m": 10**6, "M": 10**6, "Mb": 10**6, "MB": 10**6,
         "g": 10**9, "G": 10**9, "Gb": 10**9, "gb": 10**9}


def _shape_str(shape, digits):
    it = iter(digits)
    return "".join(str(next(it)) if ch == "D" else ch for ch in shape)


def _bvval(ds):
    acc = z3.BitVecVal(0, 64)
    for d in ds:
        acc = acc * 10 + d.bv
    return acc


# ---------------------------------------------------------------------------
# parse_humanized: bit-precise binary64 where the code uses floats, exact where it uses Fraction/Decimal
# ---------------------------------------------------------------------------
def humanized_sym(p):
    from engine import symstr
    from engine.symstr import SymStr
    sc = symcooler()
    import symcooler.util as U
    symstr.FLOAT_EXACT = False
    shape, unit, F = p["shape"], p["unit"], p["F"]
    s, ds = SymStr.of(shape + unit)
    d = _bvval(ds)
    mult = UNITS[unit]
    scale = 10 ** F
    exact_ok = z3.URem(d * mult, z3.BitVecVal(scale, 64)) == 0
    cover("denotes_integer", exact_ok)
    cover("inexact_in_binary", True)
    try:
        got = U.parse_humanized(s)
    except ValueError:
        # a plain numeral without unit must be an integer literal; with a unit every decimal shape is well-formed
        prove(unit == "" and F > 0, "a well-formed numeral was refused")
        return ["raises", "ValueError"]
    gbv = got.bv if hasattr(got, "bv") else z3.Int2BV(got.e, 64)
    prove(z3.Implies(exact_ok, gbv == z3.UDiv(d * mult, z3.BitVecVal(scale, 64))),
          "numeral x unit denotes an integer but a different integer was returned (inexact scaling)")
    return [got]


def humanized_real(p, inputs):
    from cooler.util import parse_humanized
    nd = p["shape"].count("D")
    digits = [inputs[f"d{i}"] for i in range(nd)]
    s = _shape_str(p["shape"], digits) + p["unit"]
    exact = fractions.Fraction(s[:len(s) - len(p["unit"])].replace(",", "")) * UNITS[p["unit"]]
    try:
        got = parse_humanized(s)
    except ValueError:
        if not (p["unit"] == "" and p["F"] > 0):
            raise OracleFailure(f"parse_humanized({s!r}) was refused")
        return ["raises", "ValueError"]
    if exact.denominator == 1 and got != exact:
        raise OracleFailure(f"parse_humanized({s!r}) == {got}, but the string denotes {exact}")
    return [got]


def _hum_cases(tier):
    out = []
    if tier == "quick":
        shapes = [("D.DD", 2), ("DD.D", 1), ("D,DDD", 0), ("DDD.DDD", 3), ("DD", 0), ("D.DDDD", 4)]   # last: more fraction digits than k's exponent
        units = ["M", "k", "Gb", ""]
    else:
        shapes = [("D.DD", 2), ("DD.D", 1), ("D,DDD", 0), ("DDD.DDD", 3), ("DD", 0), ("DDDD.DD", 2), ("D.DDDD", 4), ("DDDDD.D", 1), ("DD,DDD.DD", 2),
                  ("DDDDDDD", 0), (".DDD", 3), ("DDD,DDD,DDD", 0), ("D.DDDDDD", 6), ("DDDDDD.DDDD", 4), ("D,DDD,DDD.D", 1)]
        units = ["M", "k", "Gb", "", "kb", "MB", "g", "K"]
    for shape, F in shapes:
        for u in units:
            out.append(dict(shape=shape, unit=u, F=F))
    return out


# ---------------------------------------------------------------------------
# parse_region_string on a grammar of shapes, every digit symbolic
# ---------------------------------------------------------------------------
# (shape, name, start digits, start unit, start F, end digits, end unit, end F)  - 'D' = symbolic digit
GOOD = [
    ("chr1:DD-DDD", "chr1", 2, "", 0, 3, "", 0),
    ("a-b.1:D,DDD-DD,DDD", "a-b.1", 4, "", 0, 5, "", 0),
    ("c x:DD - DDD", "c x", 2, "", 0, 3, "", 0),
    ("6:DDk-DDDK", "6", 2, "k", 0, 3, "K", 0),
    ("gb|acc|loc:DMb-DDMb", "gb|acc|loc", 1, "Mb", 0, 2, "Mb", 0),
    ("chrX:D.DM-DD.DDM", "chrX", 2, "M", 1, 4, "M", 2),
    ("chr1:DD-", "chr1", 2, "", 0, None, None, None),
    ("chr1:D.DDkb-", "chr1", 3, "kb", 2, None, None, None),
    ("name-with-hyphens-", "name-with-hyphens-", None, None, None, None, None, None),
    (" chr2 ", "chr2", None, None, None, None, None, None),
    ("chr1:D,DDD,DDD-DGb", "chr1", 7, "", 0, 1, "Gb", 0),
]
BAD = ["chr1:DD", ":D-D", "chr1:-D-D", "chr1:D--D", "chr1:D-x", "chr1:x-D", "chr1:Dq-DDq", "chr1:D-DDz", "chr1::DD-DD", "chr1:$DD-DD",
       "  :D-D", "chr1:DkDa-DDkDa", "chr1:DD DD-DDD", "chr1:", " chr1 :", "chr1: ", "chr1:-", "chr1:DD-DD:"]


def region_sym(p):
    from engine import symstr
    from engine.symstr import SymStr
    symcooler()
    import symcooler.util as U
    symstr.FLOAT_EXACT = True   # rounding is the subject of the `humanized` check; here the grammar is
    kind, idx = p["kind"], p["idx"]
    if kind == "good":
        shape, name, ns, us, fs, ne, ue, fe = GOOD[idx]
        s, ds = SymStr.of(shape)
        if ns is None:
            got = U.parse_region_string(s)
            prove(str(got[0]) == name and got[1] is None and got[2] is None, "bare name not returned as (name, None, None)")
            return [str(got[0]), None, None]
        sv = _bvval(ds[:ns]) * UNITS[us]
        sden = 10 ** fs
        ev = _bvval(ds[ns:ns + ne]) * UNITS[ue] if ne is not None else None
        eden = 10 ** fe if ne is not None else 1
        exact = z3.And(z3.URem(sv, z3.BitVecVal(sden, 64)) == 0, z3.URem(ev, z3.BitVecVal(eden, 64)) == 0 if ne is not None else True)
        assume(exact)
        S = z3.UDiv(sv, z3.BitVecVal(sden, 64))
        E = z3.UDiv(ev, z3.BitVecVal(eden, 64)) if ne is not None else None
        cover("reversed", z3.ULT(E, S) if ne is not None else False)
        try:
            got = U.parse_region_string(s)
        except ValueError:
            prove(z3.ULT(E, S) if ne is not None else False, f"well-formed region of shape {shape!r} was refused")
            return ["raises", "ValueError"]
        prove(str(got[0]) == name, "chromosome name altered")
        prove(got[1].bv == S, "start coordinate is not the integer the numeral denotes")
        if ne is None:
            prove(got[2] is None, "open end not returned as None")
        else:
            prove(got[2].bv == E, "end coordinate is not the integer the numeral denotes")
            prove(z3.UGE(E, S), "a reversed range was accepted")
        return [str(got[0]), got[1], got[2]]
    shape = BAD[idx]
    s, ds = SymStr.of(shape)
    try:
        got = U.parse_region_string(s)
    except ValueError:
        return ["raises", "ValueError"]
    prove(False, f"malformed region of shape {shape!r} was accepted")
    return ["accepted"]


def region_real(p, inputs):
    from cooler.util import parse_region_string
    kind, idx = p["kind"], p["idx"]
    shape = GOOD[idx][0] if kind == "good" else BAD[idx]
    nd = shape.count("D")
    s = _shape_str(shape, [inputs[f"d{i}"] for i in range(nd)])
    try:
        got = parse_region_string(s)
    except ValueError:
        if kind == "good":
            shape, name, ns, us, fs, ne, ue, fe = GOOD[idx]
            rev = False
            if ne is not None:
                body = s.split(":")[1]
                a, b = body.split("-")[0], body.split("-")[1]
                ev = lambda t, u: fractions.Fraction(t.strip().replace(",", "")[:len(t.strip().replace(",", "")) - len(u)]) * UNITS[u]  # noqa
                rev = ev(b, ue) < ev(a, us)
            if not rev:
                raise OracleFailure(f"well-formed region {s!r} was refused")
        return ["raises", "ValueError"]
    if kind == "bad":
        raise OracleFailure(f"malformed region {s!r} was accepted as {got}")
    shape, name, ns, us, fs, ne, ue, fe = GOOD[idx]
    if ns is None:
        if got != (name, None, None):
            raise OracleFailure(f"{s!r} -> {got}")
        return list(got)
    body = s.split(":")[1]
    parts = body.split("-")
    num = lambda t, u: fractions.Fraction(t.strip().replace(",", "")[:len(t.strip().replace(",", "")) - len(u)]) * UNITS[u]  # noqa
    S = num(parts[0], us)
    E = num(parts[1], ue) if ne is not None else None
    if got[0] != name or got[1] != S or got[2] != E:
        raise OracleFailure(f"parse_region_string({s!r}) == {got}, denotes ({name}, {S}, {E})")
    return list(got)


# ---------------------------------------------------------------------------
# format -> parse round trip on unbounded integers (plain and with thousands separators)
# ---------------------------------------------------------------------------
def roundtrip_sym(p):
    from engine import symstr
    from engine.symstr import SymStr
    symcooler()
    import symcooler.util as U
    symstr.FLOAT_EXACT = True
    ns, ne, commas = p["ns"], p["ne"], p["commas"]

    def num(n):
        if not commas:
            return "D" * n
        out = ""
        for i in range(n):
            out += "D"
            if (n - i - 1) % 3 == 0 and i != n - 1:
                out += ","
        return out
    shape = f"{p['name']}:{num(ns)}-{num(ne)}"
    s, ds = SymStr.of(shape)
    S, E = _bvval(ds[:ns]), _bvval(ds[ns:])
    assume(z3.ULE(S, E))
    if ns > 1:
        assume(ds[0].bv != 0)
    if ne > 1:
        assume(ds[ns].bv != 0)
    got = U.parse_region_string(s)
    prove(z3.And(got[1].bv == S, got[2].bv == E), "formatting a region and parsing it back is not the identity")
    prove(str(got[0]) == p["name"], "name changed in the round trip")
    return [str(got[0]), got[1], got[2]]


def roundtrip_real(p, inputs):
    from cooler.util import parse_region_string
    ns, ne = p["ns"], p["ne"]
    S = int("".join(str(inputs[f"d{i}"]) for i in range(ns)))
    E = int("".join(str(inputs[f"d{i}"]) for i in range(ns, ns + ne)))
    s = f"{p['name']}:{S:,}-{E:,}" if p["commas"] else f"{p['name']}:{S}-{E}"
    got = parse_region_string(s)
    if got != (p["name"], S, E):
        raise OracleFailure(f"round trip of {s!r} gave {got}")
    return list(got)


# ---------------------------------------------------------------------------
# parse_region: defaults and bounds, unbounded integers, symbolic chromosome lengths
# ---------------------------------------------------------------------------
def bounds_body(env, p):
    util = env.mod("util")
    L = [env.int("L0", 1), env.int("L1", 1)]
    sizes = {"c0": L[0], "c1": L[1]}
    which = p["which"]
    name = "c0" if which != "unknown" else "zz"
    start = None if p["start_none"] else env.int("start")
    end = None if p["end_none"] else env.int("end")
    s_eff = 0 if start is None else start
    e_eff = L[0] if end is None else end
    ok = and_(0 <= s_eff, s_eff <= e_eff, e_eff <= L[0]) if which != "unknown" else False
    env.cover("end_equals_length", e_eff == L[0] if which != "unknown" else False)
    reg = name if p["bare"] else (name, start, end)
    try:
        got = util.parse_region(reg, sizes)
    except ValueError:
        env.check(not_(ok), "a range inside the chromosome was refused")
        return ["raises", "ValueError"]
    env.check(ok, "a range beyond the chromosome, a reversed/negative range or an unknown chromosome was accepted")
    env.check(and_(got[0] == name, got[1] == s_eff, got[2] == e_eff), "defaults not resolved to 0 / chromosome length")
    return [got[0], got[1], got[2]]


bounds_sym, bounds_real = both(bounds_body)


def _bounds_cases(tier):
    out = [dict(which="known", bare=True, start_none=True, end_none=True), dict(which="unknown", bare=True, start_none=True, end_none=True)]
    for sn in (False, True):
        for en in (False, True):
            out.append(dict(which="known", bare=False, start_none=sn, end_none=en))
    out.append(dict(which="unknown", bare=False, start_none=False, end_none=False))
    return out


# ---------------------------------------------------------------------------
# parse_cooler_uri: CrossHair (z3 string theory) on PEP316 contracts around the real function
# ---------------------------------------------------------------------------
CH_SRC = '''
from cooler.util import parse_cooler_uri


def uri_slash(f: str, g: str) -> bool:
    """
    pre: len(f) <= {n} and len(g) <= {n}
    pre: "::" not in f and "::" not in g and not g.startswith("/") and len(g) > 0 and not f.endswith(":") and not g.startswith(":")
    post: _ == True
    """
    a = parse_cooler_uri(f + "::" + g)
    b = parse_cooler_uri(f + "::/" + g)
    return a == b and a == (f, "/" + g)


def uri_root(f: str) -> bool:
    """
    pre: len(f) <= {n}
    pre: "::" not in f
    post: _ == True
    """
    return parse_cooler_uri(f) == (f, "/")


def uri_too_many(f: str, g: str, h: str) -> bool:
    """
    pre: len(f) <= 2 and len(g) <= 2 and len(h) <= 2
    pre: ":" not in f and ":" not in g and ":" not in h
    post: _ == True
    """
    try:
        parse_cooler_uri(f + "::" + g + "::" + h)
    except ValueError:
        return True
    return False


def uri_reach_twin(f: str, g: str) -> bool:
    """
    pre: len(f) <= {n} and len(g) <= {n}
    pre: "::" not in f and "::" not in g and not g.startswith("/") and len(g) > 0 and not f.endswith(":") and not g.startswith(":")
    post: _ == True
    """
    parse_cooler_uri(f + "::" + g)
    return False
'''


def uri_sym(p):
    """runs CrossHair as the solver back end for this one pure-string function; counts each contract as an obligation"""
    from engine.symcore import CTX
    from .common import scratch
    n = p["n"]
    d = scratch()
    path = os.path.join(d, "ch_uri.py")
    open(path, "w").write(CH_SRC.format(n=n))
    exe = os.path.join(os.path.dirname(sys.executable), "crosshair")
    t = time.time()
    r = subprocess.run([exe, "check", "--report_all", "--per_condition_timeout", str(p["timeout"]), "--per_path_timeout", str(p["timeout"]), path],
                       capture_output=True, text=True, env=dict(os.environ, PYTHONPATH=os.environ.get("PYTHONPATH", "")), timeout=p["timeout"] * 6 + 60)
    out = r.stdout + r.stderr
    CTX.stats["solver_s"] += time.time() - t
    verdict = {}
    for line in out.splitlines():
        for fn in ("uri_slash", "uri_root", "uri_too_many", "uri_reach_twin"):
            if f"{fn}" in line or True:
                pass
    # crosshair reports "file:line: info|error: message"; map lines to functions by line number
    src = CH_SRC.format(n=n).splitlines()
    starts = {i + 1: l.split("(")[0][4:] for i, l in enumerate(src) if l.startswith("def ")}
    def fn_of(lineno):
        best = None
        for ln, name in starts.items():
            if ln <= lineno:
                best = name
        return best
    for line in out.splitlines():
        parts = line.split(":")
        if len(parts) >= 4 and parts[1].strip().isdigit():
            fn = fn_of(int(parts[1]))
            verdict.setdefault(fn, []).append(":".join(parts[2:]).strip())
    note("crosshair: " + " | ".join(f"{k}={v}" for k, v in verdict.items()))
    for fn in ("uri_slash", "uri_root", "uri_too_many"):
        msgs = verdict.get(fn, [])
        CTX.stats["queries"] += 1
        if any("error" in m.lower() and "false when calling" in m.lower() or m.lower().startswith("error") for m in msgs):
            prove(False, f"parse_cooler_uri contract {fn} refuted by CrossHair: {msgs}")
        elif any("Confirmed over all paths" in m for m in msgs):
            prove(True, fn)
        else:
            raise Inconclusive(f"CrossHair did not confirm {fn}: {msgs or out[-300:]}")
    twin = verdict.get("uri_reach_twin", [])
    if not any(m.lower().startswith("error") for m in twin):
        raise Inconclusive(f"reachability twin was not refuted (vacuous contracts?): {twin}")
    cover("twin_refuted", True)
    return ["confirmed"]


def uri_real(p, inputs):
    from cooler.util import parse_cooler_uri
    for f in ("", "a", "a.cool", "/x/y.cool", "a:b"):
        for g in ("g", "g/h", "x:y"):
            if parse_cooler_uri(f + "::" + g) != (f, "/" + g) or parse_cooler_uri(f + "::/" + g) != (f, "/" + g):
                raise OracleFailure(f"parse_cooler_uri splits {f!r}::{g!r} differently with and without the leading slash")
        if "::" not in f and parse_cooler_uri(f) != (f, "/"):
            raise OracleFailure("bare file path does not map to the root group")
    try:
        parse_cooler_uri("a::b::c")
        raise OracleFailure("URI with two separators accepted")
    except ValueError:
        pass
    return ["confirmed"]


CHECKS = [
    Check("humanized", _hum_cases, humanized_sym, humanized_real, labels=("denotes_integer",),
          doc="parse_humanized executed from source on numerals with symbolic digits; float() = one correctly rounded binary64 division, "
              "*= fp.mul, int() = fp.to_sbv(RTZ); Fraction/Decimal exact: result == numeral x unit whenever that is an integer",
          bounds=dict(quick="5 digit shapes (<=6 digits, <=3 fraction digits) x units {M,k,Gb,none}", thorough="15 shapes (<=10 digits, <=6 fraction digits) x 8 units"),
          stubs=("strtod of ddd.ddd == RNE(d / 10^F) (d < 2^53, F <= 22)", "E10 re on a digit-representative string (pattern checked for digit-only-through-classes)"),
          timeout=1800, path_timeout=900),
    Check("region_grammar", lambda tier: [dict(kind="good", idx=i) for i in range(len(GOOD))] + [dict(kind="bad", idx=i) for i in range(len(BAD))],
          region_sym, region_real, labels=("reversed",),
          doc="parse_region_string executed from source on a grammar of shapes (11 well-formed, 18 malformed), all digits symbolic",
          bounds=dict(shapes="finite list printed in the harness (GOOD/BAD); every numeral of each shape"),
          outside=("strings outside the listed shapes (matching a regex against a fully symbolic string is outside every engine here)",)),
    Check("roundtrip", lambda tier: [dict(name=nm, ns=a, ne=b, commas=c) for nm in ("chr1", "a-b") for a, b in ([(1, 1), (3, 4), (4, 7)] if tier == "quick" else [(1, 1), (3, 4), (4, 7), (7, 9), (10, 10)])
                                    for c in (False, True)],
          roundtrip_sym, roundtrip_real, doc="format(name, start, end) -> parse is the identity, plain and with thousands separators",
          bounds=dict(quick="up to 7-digit coordinates", thorough="up to 10 digits")),
    Check("bounds", _bounds_cases, bounds_sym, bounds_real, labels=("end_equals_length",),
          doc="parse_region on tuples / bare names: accepted <=> 0 <= start <= end <= length (None -> 0 / length), unknown names refused",
          bounds=dict(all="unbounded integers, symbolic chromosome lengths")),
    Check("uri", lambda tier: [dict(n=3 if tier == "quick" else 5, timeout=40 if tier == "quick" else 240)], uri_sym, uri_real, labels=("twin_refuted",),
          doc="parse_cooler_uri: CrossHair (z3 string theory) confirms over all paths that file::group and file::/group split into the same pair, "
              "a bare path maps to '/', two separators are refused; an assert-False twin must be refuted (vacuity guard)",
          bounds=dict(quick="|file|,|group| <= 3", thorough="<= 5"), stubs=("CrossHair's str model",), timeout=1800, path_timeout=1700),
]

MUTANTS = [
    dict(name="revert F3 fix (binary float scaling)", file="util.py", old="    value = Fraction(value)", new="    value = float(value)", checks=["humanized"]),
    dict(name="M unit scaled by 10^5", file="util.py", old="        value *= 1000000\n", new="        value *= 100000\n", checks=["humanized", "region_grammar"]),
    dict(name="reversed range accepted", file="util.py", old='        if end < start:\n            raise ValueError("End coordinate less than start")', new="        if False:\n            raise ValueError()", checks=["region_grammar"]),
    dict(name="missing hyphen tolerated", file="util.py", old='        typ, token = next(tokens, (None, None))\n        _check_token(typ, token, ["HYPHEN"])', new="        typ, token = next(tokens, (None, None))", checks=["region_grammar"]),
    dict(name="parse_region: end > length accepted", file="util.py", old="    if start < 0 or (clen is not None and end > clen):", new="    if start < 0:", checks=["bounds"]),
    dict(name="parse_region: end == length refused", file="util.py", old="    if start < 0 or (clen is not None and end > clen):", new="    if start < 0 or (clen is not None and end >= clen):", checks=["bounds"]),
    dict(name="uri: leading slash not normalised", file="util.py", old='        if not group_path.startswith("/"):\n            group_path = "/" + group_path', new="        pass", checks=["uri"], expect="missed"),
]
