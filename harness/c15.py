"""C15 - file-level operations preserve content and touch nothing else."""
from __future__ import annotations

import os

import numpy as np

from .common import *  # noqa: F401,F403
from .common import Check, OracleFailure, SymEnv, RealEnv, both, scratch_file, env_pixels, vals, known_active
from .model import concrete_bins

N = 2  # bins of every collection


class Model:
    """reference namespace: per file a dict path -> ('node', id) | ('soft', target) | ('ext', file, target); nodes: id -> content tag.
    A file that does not exist is absent from `files`."""

    def __init__(self):
        self.files = {}
        self.nodes = {}
        self.attrs = {}
        self.next = 0

    def new_node(self, content):
        self.next += 1
        self.nodes[self.next] = content
        return self.next

    def resolve(self, f, path, depth=0):
        if f not in self.files or depth > 8:
            return None
        ns = self.files[f]
        # longest bound prefix (collections may be reached through a linked ancestor only if bound exactly: we only bind collections)
        e = ns.get(path)
        if e is None:
            return None
        if e[0] == "node":
            return self.nodes[e[1]]
        if e[0] == "soft":
            return self.resolve(f, e[1], depth + 1)
        return self.resolve(e[1], e[2], depth + 1)

    def listing(self, f, ext_as_target=False):
        out = []
        for p, e in self.files.get(f, {}).items():
            if self.resolve(f, p) is None:
                continue
            out.append(e[2] if (ext_as_target and e[0] == "ext") else p)
        return sorted(out)


OPS = [
    # (kind, src file, src uri group spelling, dst file, dst group spelling, flag)
    ("cp", 0, "/x", 0, "/z", None), ("cp", 0, "x", 1, "q", None), ("cp", 0, "/d/y", 1, "/", None), ("cp", 0, "/x", 1, "/deep/q", "overwrite"),
    ("mv", 0, "/x", 0, "/m", None), ("mv", 0, "d/y", 0, "/x2", None),
    ("ln", 0, "/x", 0, "/h", None), ("ln", 0, "/x", 0, "s", "soft"), ("ln", 0, "/d/y", 1, "/e", "soft"),
    ("create", None, None, 0, "/n", "a"), ("create", None, None, 0, "/x", "a"), ("create", None, None, 1, "/", "w"), ("create", None, None, 1, "/k", "a"),
    ("cp", 0, "/x", 0, "/d/y", None),   # destination occupied: must be refused, nothing changes
    ("create", None, None, 0, "/", "a"), ("create", None, None, 1, "/", "a"),   # a root collection appended to a file that holds nested ones
]


def _norm(g):
    return g if g.startswith("/") else "/" + g


def _apply_model(m, op, files, new_content):
    """returns expected exception class name or None"""
    kind, sf, sg, df, dg, flag = op
    dpath = _norm(dg)
    dfile = files[df]
    if kind == "create":
        if flag == "w" or dfile not in m.files:
            m.files[dfile] = {}
            m.attrs[dfile] = {}
        ns = m.files[dfile]
        if dpath == "/":
            # root creation deletes chroms/bins/pixels/indexes only; with mode w the file is empty anyway
            pass
        ns[dpath] = ("node", m.new_node(new_content))
        return None
    sfile, spath = files[sf], _norm(sg)
    if m.resolve(sfile, spath) is None:
        if kind == "ln" and flag == "soft":
            return "dangling"      # HDF5 lets a soft/external link dangle: outside the property, the harness skips these
        if kind == "cp" and (dfile not in m.files or flag == "overwrite"):
            # side effect of the failed copy: the destination file was already opened in write mode
            m.files[dfile] = {}
            m.attrs[dfile] = {}
        return "KeyError"
    same = sfile == dfile
    if kind == "cp":
        overwrite = flag == "overwrite"
        if dfile not in m.files or overwrite:
            m.files[dfile] = {}
            m.attrs[dfile] = {}
        ns = m.files[dfile]
        if dpath in ns:
            return "RuntimeError"
        if dpath == "/" and any(p != "/" for p in ns):
            pass
        ns[dpath] = ("node", m.new_node(m.resolve(sfile, spath)))
        return None
    if kind == "mv":
        ns = m.files[sfile]
        if dpath in ns:
            return "OSError"
        ns[dpath] = ns[spath]
        del ns[spath]
        return None
    if kind == "ln":
        if flag == "soft":
            if dfile not in m.files:
                m.files[dfile] = {}
                m.attrs[dfile] = {}
            ns = m.files[dfile]
            if dpath in ns:
                return "OSError"
            ns[dpath] = ("soft", spath) if same else ("ext", sfile, spath)
        else:
            ns = m.files[sfile]
            if dpath in ns:
                return "OSError"
            ns[dpath] = ns[spath]
        return None


def _inner(env, fl, pth):
    """plain-Python copy of the extra bin column and of the attributes on inner objects; no HDF5 object survives the call
    (an object reached through an external link keeps the linked file open for as long as it lives)"""
    fh = env.h5.File(fl, "r")
    try:
        g = fh[pth]
        has = "weight" in g["bins"]
        wv = [float(x) for x in g["bins/weight"][:]] if has else None
        at = {k: (v.item() if hasattr(v, "item") else v) for k, v in g["bins/weight"].attrs.items()} if has else {}
        ptag = g["pixels"].attrs.get("tag")
        del g
    finally:
        fh.close()
    return has, wv, at, ptag


def history_body(env, p):
    env.reset()
    co = env.cooler
    fo = co.fileops
    bins = concrete_bins([N], "even")
    files = [scratch_file("c15_a.cool"), scratch_file("c15_b.cool")]
    m = Model()
    contents = {}
    pool = ["D", "E", "F", "G"][:max(2, p["steps"])]     # one fresh content per possible create step
    for tag in ["A", "B", "C"] + pool:
        contents[tag] = env_pixels(env, N, 1, prefix=f"{tag}_")
    # initial state: file 0 holds /x (A) and /d/y (B); file 1 optionally holds a root collection (C)
    env.build_cooler(files[0], bins, *contents["A"][:2], {"count": contents["A"][2]}, group="/x", mode="w")
    env.build_cooler(files[0], bins, *contents["B"][:2], {"count": contents["B"][2]}, group="/d/y", mode="a")
    m.files[files[0]] = {"/x": ("node", m.new_node("A")), "/d/y": ("node", m.new_node("B"))}
    f = env.h5.File(files[0], "r+")
    f.attrs["note"] = "keep"
    f.close()
    if p["second_file"]:
        env.build_cooler(files[1], bins, *contents["C"][:2], {"count": contents["C"][2]}, group="/", mode="w")
        m.files[files[1]] = {"/": ("node", m.new_node("C"))}
    # the initial collections are balanced ones: an extra bin column that carries its own attributes (what balance_cooler(store=True)
    # leaves), and an attribute on the pixel group - "reads identically" includes these
    weights = {"A": [0.5, 2.0], "B": [1.5, 0.25], "C": [4.0, 0.125]}
    for fl, grp, tag in [(files[0], "/x", "A"), (files[0], "/d/y", "B")] + ([(files[1], "/", "C")] if p["second_file"] else []):
        f = env.h5.File(fl, "r+")
        g = f[grp]
        d = g["bins"].create_dataset("weight", data=np.array(weights[tag]))
        d.attrs["scale"] = weights[tag][0]
        d.attrs["converged"] = True
        g["pixels"].attrs["tag"] = tag
        f.close()
    fresh = iter(pool)
    trace = []
    for step in range(p["steps"]):
        k = env.choice(f"op{step}", len(OPS))
        op = OPS[k]
        kind, sf, sg, df, dg, flag = op
        # keep link targets alive: no operation removes or replaces a path a soft/external link points to
        for fl, ns in m.files.items():
            for pth, e in ns.items():
                if e[0] in ("soft", "ext"):
                    tgt = e[1] if e[0] == "soft" else e[2]
                    if (kind == "mv" and _norm(sg) == tgt) or (kind == "create" and _norm(dg) == tgt) or (kind == "create" and flag == "w") \
                            or (kind == "cp" and flag == "overwrite"):
                        env.assume(False)
        tag = next(fresh) if kind == "create" else None
        import copy
        m2 = copy.deepcopy(m)
        exp_err = _apply_model(m2, op, files, tag)
        if exp_err == "dangling":
            env.assume(False)
        suri = None if sf is None else files[sf] + "::" + sg
        duri = files[df] + ("::" + dg if dg != "/" or kind != "create" else "")
        err = None
        try:
            if kind == "cp":
                fo.cp(suri, duri, overwrite=(flag == "overwrite"))
            elif kind == "mv":
                fo.mv(suri, duri)
            elif kind == "ln":
                fo.ln(suri, duri, soft=(flag == "soft"))
            else:
                b1, b2, v = contents[tag]
                pix = {"bin1_id": env.array(b1, "int64"), "bin2_id": env.array(b2, "int64"), "count": env.array(v, "int32")}
                co.create_cooler(duri, bins, iter([pix]), ordered=True, mode=flag)
        except (KeyError, RuntimeError, OSError, ValueError) as e:
            err = type(e).__name__
        trace.append([k, err])
        if exp_err is not None:
            env.check(err is not None, f"{kind} onto an occupied / from a missing path was not refused")
        else:
            env.check(err is None, f"{kind} {sg}->{dg} failed with {err}")
        m = m2
        # the state must equal the reference namespace after every step - read back from another working directory than the one the
        # operations ran in (a stored path must not depend on where the process happened to be)
        _cwd = os.getcwd()
        _else = os.path.join(os.path.dirname(files[0]), "elsewhere")
        os.makedirs(_else, exist_ok=True)
        os.chdir(_else)
        try:
            _verify_state(env, co, fo, m, files, contents, weights)
        finally:
            os.chdir(_cwd)
    return trace


def _verify_state(env, co, fo, m, files, contents, weights):
    if True:
        for fi, fl in enumerate(files):
            exists = env.h5.is_hdf5(fl)
            if fl not in m.files:
                env.check(not exists, "a file appeared that no operation created")
                continue
            env.check(exists, "a file is missing")
            listing = fo.list_coolers(fl)
            want = m.listing(fl, ext_as_target=known_active("F18"))
            env.check(listing == want, f"listing {listing} differs from the collections the file should hold {want}")
            for pth in m.listing(fl):
                uri = fl + "::" + pth
                env.check(fo.is_cooler(uri), f"{pth} is not recognised as a cooler")
                tab = co.Cooler(uri).pixels()[:]
                b1, b2, v = contents[m.resolve(fl, pth)]
                env.check(and_(len(tab) == 1, vals(tab["bin1_id"])[0] == b1[0], vals(tab["bin2_id"])[0] == b2[0], vals(tab["count"])[0] == v[0]) if len(tab) == 1 else False,
                          f"{pth} does not read back as the content it should hold")
                tag_ = m.resolve(fl, pth)
                if tag_ in weights:
                    has, wv, at, ptag = _inner(env, fl, pth)
                    ok = has and wv == weights[tag_]
                    env.check(ok, f"{pth}: the extra bin column of the source did not come along")
                    if ok:
                        env.check(at.get("scale") == weights[tag_][0] and bool(at.get("converged", False)) and ptag == tag_,
                                  f"{pth}: attributes stored on the source's inner tables/columns are missing from the destination ({sorted(at)})")
            for probe in ("/nope", "/d", "/x/bins", "/zz/top"):
                if probe in m.files[fl]:
                    continue
                try:
                    r = fo.is_cooler(fl + "::" + probe)
                except Exception as e:  # noqa
                    r = "error " + type(e).__name__
                env.check(r is False, f"is_cooler on a path that holds no collection returned {r!r} instead of False")
        fh = env.h5.File(files[0], "r")
        env.check(fh.attrs.get("note") == "keep", "an unrelated file attribute was lost")
        fh.close()


history_sym, history_real = both(history_body)


CHECKS = [
    Check("history", lambda tier: [dict(steps=2 if tier == "quick" else 3, second_file=sf) for sf in (False, True)], history_sym, history_real,
          doc="sequences of create(append/write)/cp/mv/ln(hard, soft, external)/overwrite over two files with collections at the root and at nested paths, "
              "URIs with and without leading slash, against a reference namespace model: destination reads as the source, source gone only for mv, listing "
              "== model, recognition true exactly on model paths and False (not an error) elsewhere, occupied destinations refused, unrelated attributes kept",
          bounds=dict(quick="all sequences of 2 operations out of 14 operation instances, collection contents symbolic", thorough="all sequences of 3"),
          stubs=("E3 in-memory h5py model: links, Group.copy, file modes, refusal of truncating an open file; every explored path is replayed on real h5py",),
          outside=("operations that would leave a dangling soft/external link are excluded",), timeout=3400, split_depth=9),
]

MUTANTS = [
    dict(name="revert F18 fix (objects named by obj.name)", file="fileops.py", old='                child_path = path.rstrip("/") + "/" + key',
         new='                child_path = child.name', checks=["history"]),
    dict(name="revert F4 fix (is_cooler raises on a missing path)", file="fileops.py", old="        if grouppath not in f:\n            return False\n", new="", checks=["history"]),
    dict(name="mv keeps the source", file="fileops.py", old="                if rename:\n                    del src[src_group]", new="                if False:\n                    del src[src_group]", checks=["history"]),
    dict(name="cp into an existing file truncates it", file="fileops.py", old='    if not os.path.isfile(dst_path) or overwrite:', new='    if True:', checks=["history"]),
    dict(name="root-destination copy drops attributes", file="fileops.py", old="                    dst[dst_group].attrs.update(src[src_group].attrs)", new="                    pass", checks=["history"]),
    dict(name="soft link points at the destination name", file="fileops.py", old="                src[dst_group] = h5py.SoftLink(src_group)", new="                src[dst_group] = h5py.SoftLink(dst_group + '_')", checks=["history"]),
    dict(name="list_coolers skips the root", file="fileops.py", old='        _check_cooler("/", f)\n        visititems(f, _check_cooler)\n\n    return natsorted(listing)\n\n\ndef list_scool_cells', new='        visititems(f, _check_cooler)\n\n    return natsorted(listing)\n\n\ndef list_scool_cells', checks=["history"]),
    dict(name="create in append mode deletes sibling groups", file="create/_create.py", old="            try:\n                f.create_group(group_path)\n            except ValueError:\n                del f[group_path]\n                f.create_group(group_path)\n\n    # Write chroms, bins and pixels\n    if append_scool:",
         new="            for k in list(f.keys()):\n                del f[k]\n            f.create_group(group_path)\n\n    # Write chroms, bins and pixels\n    if append_scool:", checks=["history"]),
]
