"""C04 - genomic ranges map to exactly the bins that cover them."""
from __future__ import annotations

import numpy as np

from .common import *  # noqa: F401,F403
from .common import (Check, OracleFailure, SymEnv, RealEnv, both, layouts, scratch_file, sym_pixels, pixels_from_inputs,
                     symcooler, known_active)
from .model import sym_bins, bins_frame, real_widths


def _pd(env):
    if env.symbolic:
        from engine import sympd
        return sympd
    import pandas
    return pandas


def _table(env, p):
    layout = p["layout"]
    if env.symbolic:
        bins, widths = sym_bins(layout, p["wmax"], p["shape"], p.get("b"))
    else:
        widths = real_widths(env.inputs, layout, p["shape"], p.get("b"))
        bins = bins_frame(layout, widths, _pd(env))
    return bins, widths


def _geometry(layout, widths):
    """per bin: (chrom index, start, end) from the widths"""
    out = []
    for ci, ws in enumerate(widths):
        pos = 0
        for w in ws:
            out.append((ci, pos, pos + w))
            pos = pos + w
    return out


def _region(env, layout, widths):
    nch = len(layout)
    ci = env.choice("chrom", nch)
    L = ssum(widths[ci]) if env.symbolic else sum(widths[ci])
    start, end = env.int("start", 0), env.int("end", 0)
    env.assume(and_(start <= end, end <= L))
    if known_active("F16"):
        env.assume(not_(and_(start == end, end == L)))
    return ci, start, end, L


def _expect(env, geom, ci, start, end, i0, i1, what):
    """selected <=> same chromosome and overlapping (non-empty query); empty query: nothing, or the one bin containing it"""
    conds = []
    nonempty = start < end
    for k, (c, s, e) in enumerate(geom):
        sel = and_(i0 <= k, k < i1)
        ov = and_(s < end, e > start) if c == ci else False
        contains = and_(s <= start, start < e) if c == ci else False
        conds.append(ite(nonempty, sel == ov if isinstance(sel == ov, (SBool, bool)) else (sel == ov), or_(not_(sel), contains)))
    env.check(and_(*conds, i0 <= i1), what)


def _iff(a, b):
    return or_(and_(a, b), and_(not_(a), not_(b)))


def _expect2(env, geom, ci, start, end, i0, i1, what):
    conds = [i0 <= i1]
    nonempty = start < end
    for k, (c, s, e) in enumerate(geom):
        sel = and_(i0 <= k, k < i1)
        ov = and_(s < end, e > start) if c == ci else False
        contains = and_(s <= start, start < e) if c == ci else False
        conds.append(or_(and_(nonempty, _iff(sel, ov)), and_(not_(nonempty), or_(not_(sel), contains))))
    return env.check(and_(*conds), what)


# ---------------------------------------------------------------------------
# Cooler.extent / offset / bins().fetch on a cooler whose bin table is symbolic
# ---------------------------------------------------------------------------
def _make(env, p, bins, K=0, upper=True):
    n = sum(p["layout"])
    path = scratch_file("c04.cool")
    if env.symbolic:
        from engine import symh5
        symh5.reset()
        b1, b2, v = sym_pixels(n, K, upper) if K else ([], [], [])
        pix = {"bin1_id": SArr(b1, "int64"), "bin2_id": SArr(b2, "int64"), "count": SArr(v, "int32")}
    else:
        b1, b2, v = pixels_from_inputs(env.inputs, K) if K else ([], [], [])
        pix = {"bin1_id": np.array(b1, dtype=np.int64), "bin2_id": np.array(b2, dtype=np.int64), "count": np.array(v, dtype=np.int32)}
    env.cooler.create_cooler(path, bins, iter([pix]), ordered=True, symmetric_upper=upper)
    return env.cooler.Cooler(path), b1, b2, v


def extent_body(env, p):
    bins, widths = _table(env, p)
    layout = p["layout"]
    geom = _geometry(layout, widths)
    clr, *_ = _make(env, p, bins)
    ci, start, end, L = _region(env, layout, widths)
    name = f"c{ci}"
    env.cover("fixed_path", clr.binsize is not None)
    env.cover("variable_path", clr.binsize is None)
    env.cover("empty_range", start == end)
    env.cover("on_bin_edge", or_(*[and_(start == s, c == ci) for c, s, e in geom if c == ci]))
    i0, i1 = clr.extent((name, start, end))
    _expect2(env, geom, ci, start, end, i0, i1, "Cooler.extent does not select exactly the bins overlapping the range")
    off = clr.offset((name, start, end))
    env.check(off == i0, "Cooler.offset differs from the first bin of the extent")
    # whole chromosome / open-ended spellings
    w0, w1 = clr.extent(name)
    lo = sum(layout[:ci])
    env.check(and_(w0 == lo, w1 == lo + layout[ci]), "whole-chromosome extent is not the chromosome's bins")
    o0, o1 = clr.extent((name, start, None))
    _expect2(env, geom, ci, start, L, o0, o1, "open-ended extent does not reach the chromosome end")
    tab = clr.bins().fetch((name, start, end))
    idx = list(tab.index)
    if len(idx) != i1 - i0:
        env.fail("bins().fetch returned a different number of rows than the extent")
    else:
        env.check(and_(*[lab == i0 + q for q, lab in enumerate(idx)],
                       *[and_(tab["start"].values[q] == _g(geom, i0 + q, 1, env), tab["end"].values[q] == _g(geom, i0 + q, 2, env))
                         for q in range(len(idx))]), "bins().fetch rows are not the bins of the extent")
    return [i0, i1, off, w0, w1, o0, o1]


def _g(geom, k, field, env):
    """geom[k][field] for a possibly symbolic k"""
    if isinstance(k, SInt):
        from engine.symnp import _sel
        return _sel([g[field] for g in geom], k)
    return geom[int(k)][field]


extent_sym, extent_real = both(extent_body)


def _extent_cases(tier):
    out = []
    if tier == "quick":
        for lay in [(2,), (1, 2), (3,), (2, 1)]:
            out.append(dict(layout=list(lay), shape="any", wmax=3))
            for b in (2, 3):
                out.append(dict(layout=list(lay), shape="fixed", b=b, wmax=b + 1))
        # chromosomes as long as the int32 coordinate columns allow (bin width 10^9, 6*10^8): a rounding or tolerance rule in the
        # coordinate -> bin arithmetic that is harmless on small numbers shows one base pair off a bin edge here
        out.append(dict(layout=[2], shape="fixed", b=10**9, wmax=10**8))
        out.append(dict(layout=[1, 3], shape="fixed", b=6 * 10**8, wmax=3 * 10**8))
    else:
        for lay in layouts(3, 5):
            if len(lay) == 3 and sum(lay) > 4:
                continue
            out.append(dict(layout=list(lay), shape="any", wmax=3))
            for b in (1, 2, 3, 4, 5, 8):
                out.append(dict(layout=list(lay), shape="fixed", b=b, wmax=b + 2))
        out.append(dict(layout=[2], shape="fixed", b=10**9, wmax=10**9 + 1))
        out.append(dict(layout=[1, 3], shape="fixed", b=6 * 10**8, wmax=3 * 10**8))
        out.append(dict(layout=[2, 2], shape="fixed", b=10**9, wmax=10**8))
    return out


# ---------------------------------------------------------------------------
# pixel-table fetch and one/two-region matrix fetch
# ---------------------------------------------------------------------------
def fetch_body(env, p):
    bins, widths = _table(env, p)
    layout, K, upper = p["layout"], p["K"], p["upper"]
    n = sum(layout)
    geom = _geometry(layout, widths)
    clr, b1, b2, v = _make(env, p, bins, K, upper)
    ci, start, end, L = _region(env, layout, widths)
    env.assume(start < end)
    nch = len(layout)
    cj = env.choice("chrom2", nch)
    L2 = ssum(widths[cj]) if env.symbolic else sum(widths[cj])
    s2, e2 = env.int("start2", 0), env.int("end2", 0)
    env.assume(and_(s2 < e2, e2 <= L2))
    i0, i1 = clr.extent((f"c{ci}", start, end))
    j0, j1 = clr.extent((f"c{cj}", s2, e2))
    tab = clr.pixels().fetch((f"c{ci}", start, end))
    sel = [q for q in range(K) if bool(and_(i0 <= b1[q], b1[q] < i1))]
    env.cover("pixels_selected", len(sel) > 0)
    if len(tab) != len(sel):
        env.fail("pixels().fetch returned a wrong number of rows")
    else:
        env.check(and_(*[and_(tab.index[t] == q if not hasattr(tab.index, "arr") else tab.index.arr[t] == q,
                              tab["bin1_id"].values[t] == b1[q], tab["bin2_id"].values[t] == b2[q], tab["count"].values[t] == v[q])
                         for t, q in enumerate(sel)]), "pixels().fetch is not the pixel rows of the extent's row range")
    mat = clr.matrix(balance=False).fetch((f"c{ci}", start, end), (f"c{cj}", s2, e2))
    nr, nc = mat.shape
    if env.symbolic:
        env.check(and_(nr == i1 - i0, nc == j1 - j0), "two-region matrix fetch has a different shape than the two extents")
    elif (nr, nc) != (i1 - i0, j1 - j0):
        env.fail("two-region matrix fetch has a different shape than the two extents")
    conds = []
    for a in range(nr):
        for b_ in range(nc):
            A, B = i0 + a, j0 + b_
            ev = ssum([ite(or_(and_(r == A, c == B), and_(r == B, c == A)) if upper else and_(r == A, c == B), x, 0)
                       for r, c, x in zip(b1, b2, v)])
            conds.append(mat[a, b_] == ev)
    env.check(and_(*conds), "two-region matrix fetch differs from the index-slice query on the two extents")
    return dict(ext=[i0, i1, j0, j1], mat=mat, rows=len(tab))


fetch_sym, fetch_real = both(fetch_body)


def _fetch_cases(tier):
    out = []
    specs = [((2,), 2), ((1, 2), 2)] if tier == "quick" else [((2,), 2), ((1, 2), 2), ((2, 2), 2), ((3,), 3)]
    for lay, K in specs:
        for upper in (True, False):
            out.append(dict(layout=list(lay), shape="any", wmax=2, K=K, upper=upper))
            out.append(dict(layout=list(lay), shape="fixed", b=2, wmax=2, K=K, upper=upper))
    return out


# ---------------------------------------------------------------------------
# GenomeSegmentation.fetch / bedslice on a bin frame
# ---------------------------------------------------------------------------
def segment_body(env, p):
    util = env.mod("util")
    bins, widths = _table(env, p)
    layout = p["layout"]
    geom = _geometry(layout, widths)
    cs = util.get_chromsizes(bins)
    gs = util.GenomeSegmentation(cs, bins)
    ci, start, end, L = _region(env, layout, widths)
    env.assume(start < end)
    name = f"c{ci}"
    out = []
    for which in ("fetch", "bedslice"):
        if which == "fetch":
            res = gs.fetch((name, start, end))
        else:
            res = util.bedslice(bins.groupby("chrom", observed=True), cs, (name, start, end))
        idx = list(res.index)
        sel = [k for k, (c, s, e) in enumerate(geom) if c == ci and bool(and_(s < end, e > start))]
        if len(idx) != len(sel):
            env.fail(f"{which} returned {len(idx)} bins, {len(sel)} overlap the range")
        else:
            env.check(and_(*[lab == k for lab, k in zip(idx, sel)]), f"{which} did not return exactly the overlapping bins")
        out.append(len(idx))
    return out


segment_sym, segment_real = both(segment_body)


CHECKS = [
    Check("extent", _extent_cases, extent_sym, extent_real, labels=("fixed_path", "variable_path", "empty_range", "on_bin_edge"),
          doc="Cooler.extent/offset/bins().fetch on a cooler whose bin table has symbolic widths (fixed path through the real get_binsize)",
          bounds=dict(quick="<=2 chromosomes, <=3 bins, variable widths 1..3; fixed width b in {2,3} with last bin 1..b+1",
                      thorough="<=3 chromosomes, <=5 bins; b in {1,2,3,4,5,8}"),
          stubs=("E2 int/int true division then floor/ceil: exact rational", "E3 in-memory h5py model", "E4 pandas models"),
          outside=("coordinates >= 2^53", "UCSC string spelling of the region (C19)"), timeout=1500),
    Check("fetch", _fetch_cases, fetch_sym, fetch_real, labels=("pixels_selected",),
          doc="pixels().fetch and one/two-region matrix().fetch against the extents and the dense oracle",
          bounds=dict(quick="<=3 bins, K=2 symbolic pixels, widths 1..2", thorough="<=4 bins, K<=3"), timeout=1500),
    Check("segmentation", lambda tier: [c for c in _extent_cases(tier)], segment_sym, segment_real,
          doc="GenomeSegmentation.fetch and bedslice select exactly the overlapping bins of a bin frame",
          bounds=dict(quick="as extent"), timeout=900),
]

MUTANTS = [
    dict(name="revert F1 fix: long last bin takes the fixed-width path", file="util.py", old="if max_last > binsize:", new="if False:", checks=["extent"]),
    dict(name="extent end uses floor", file="core/_rangequery.py", old="yield chrom_offset + int(np.ceil(end / binsize))",
         new="yield chrom_offset + int(np.floor(end / binsize))", checks=["extent"]),
    dict(name="variable path: start searchsorted left", file="core/_rangequery.py",
         old='np.searchsorted(chrom_bins, start, "right") - 1', new='np.searchsorted(chrom_bins, start, "left") - 1', checks=["extent"]),
    dict(name="variable path: end searchsorted right", file="core/_rangequery.py",
         old='yield chrom_lo + chrom_lo.dtype.type(np.searchsorted(chrom_bins, end, "left"))',
         new='yield chrom_lo + chrom_lo.dtype.type(np.searchsorted(chrom_bins, end, "right"))', checks=["extent"]),
    dict(name="variable path: wrong chromosome upper bound", file="core/_rangequery.py",
         old='chrom_hi = h5["indexes"]["chrom_offset"][cid + 1]', new='chrom_hi = h5["indexes"]["chrom_offset"][-1]', checks=["extent"]),
    dict(name="parse_region accepts end beyond chromosome", file="util.py", old="if start < 0 or (clen is not None and end > clen):",
         new="if start < 0:", checks=["extent"], expect="missed"),
    dict(name="pixels fetch uses offset of i1+1", file="api.py", old='hi = grp["indexes"]["bin1_offset"][i1]',
         new='hi = grp["indexes"]["bin1_offset"][min(i1 + 1, len(grp["indexes"]["bin1_offset"]) - 1)]', checks=["fetch"]),
    dict(name="matrix fetch: second region ignored", file="api.py", old="region2 = parse_region(region2, self._chromsizes)",
         new="region2 = region1", checks=["fetch"]),
    dict(name="GenomeSegmentation.fetch: lo side left", file="util.py",
         old='            lo = result["end"].values.searchsorted(start, side="right")\n            hi = lo + result["start"].values[lo:].searchsorted(end, side="left")\n            result = result.iloc[lo:hi]\n        return result\n\n\ndef buffered',
         new='            lo = result["end"].values.searchsorted(start, side="left")\n            hi = lo + result["start"].values[lo:].searchsorted(end, side="left")\n            result = result.iloc[lo:hi]\n        return result\n\n\ndef buffered', checks=["segmentation"]),
]


# ---------------------------------------------------------------------------
# thousands of bins per chromosome: range bounds at and beside the starts of bins whose number is a multiple of an internal
# block size a look-up might use (powers of two, powers of ten)
# ---------------------------------------------------------------------------
def many_bins_body(env, p):
    """A chromosome with `nb` bins (variable widths 7..15, or fixed width 10 with a short last bin) after a small first chromosome.
    The solver picks the range bounds out of the positions {start of bin k} + {-1, 0, +1} for k a multiple of 512 or 1000 (and the last
    bins); the selected bins must be the overlapping ones. Everything but the two bounds is concrete, so this is a scale case decided by
    enumerating the solver's choices of bounds - reported as such."""
    import pandas as pd
    from .common import scratch_file
    env.reset()
    nb, kind = p["nb"], p["kind"]
    rows = [("c0", 0, 10), ("c0", 10, 20)]
    pos = 0
    for k in range(nb):
        w = 10 if kind == "fixed" else 7 + (k * 5) % 9
        rows.append(("c1", pos, pos + w))
        pos += w
    if kind == "fixed":
        rows[-1] = ("c1", rows[-1][1], rows[-1][1] + 4)
    bins = pd.DataFrame(rows, columns=["chrom", "start", "end"])
    L = int(bins["end"].iloc[-1])
    path = scratch_file("c04big.cool")
    env.build_cooler(path, bins, [0], [1], {"count": [1]}, True)
    clr = env.cooler.Cooler(path)
    starts, ends = bins["start"].tolist(), bins["end"].tolist()
    marks = sorted({k for k in range(2, nb + 2) if (k - 2) % 512 == 0 or (k - 2) % 1000 == 0} | {nb, nb + 1})
    cands = sorted({min(max(starts[k] + d, 0), L) for k in marks for d in (-1, 0, 1)} | {L})
    # (a choice ranges over at most 64 values: the index into the candidate list is drawn in two steps)
    a = env.choice("a_hi", (len(cands) + 49) // 50) * 50 + env.choice("a_lo", min(50, len(cands)))
    env.assume(a < len(cands))
    d = env.choice("d", 6)
    # the end: the same position (empty range), one of the next three candidate positions, the candidate 10 further on, or the chromosome end
    start, end = cands[a], (cands[min(a + d, len(cands) - 1)] if d < 4 else cands[min(a + 10, len(cands) - 1)] if d == 4 else L)
    if known_active("F16"):
        env.assume(not (start == end and end == L))
    env.cover("fixed_path", clr.binsize is not None)
    env.cover("variable_path", clr.binsize is None)
    i0, i1 = clr.extent(("c1", start, end))
    sel = [k for k in range(2, nb + 2) if (starts[k] < end and ends[k] > start)] if start < end else None
    if sel is not None:
        env.check(bool(i0 == sel[0]) and bool(i1 == sel[-1] + 1), f"extent(c1:{start}-{end}) = ({i0}, {i1}), the overlapping bins are {sel[0]}..{sel[-1]}")
    else:
        inside = [k for k in range(2, nb + 2) if starts[k] <= start < ends[k]]
        env.check(bool(i0 == i1) or (bool(i1 == i0 + 1) and [int(i0)] == inside), f"empty range at {start}: extent ({i0}, {i1}) selects a bin that does not contain it")
    tab = clr.bins().fetch(("c1", start, end))
    env.check(list(tab.index) == list(range(int(i0), int(i1))), "bins().fetch rows are not the bins of the extent")
    return [int(i0), int(i1)]


many_sym, many_real = both(many_bins_body)

CHECKS.append(Check("many_bins", lambda tier: [dict(nb=4500, kind="variable"), dict(nb=2100, kind="fixed")] if tier == "quick" else
                    [dict(nb=4500, kind="variable"), dict(nb=9000, kind="variable"), dict(nb=2100, kind="fixed"), dict(nb=8200, kind="fixed")],
                    many_sym, many_real, labels=("fixed_path", "variable_path"),
                    doc="scale case: a chromosome with thousands of bins; range bounds chosen by the solver among the starts (+-1) of the bins numbered "
                        "k*512 and k*1000 and the chromosome end; extent and bins().fetch select the overlapping bins (concrete table, decided by "
                        "enumerating the solver's choices)",
                    bounds=dict(quick="4500 variable-width / 2100 fixed-width bins", thorough="up to 9000 bins"),
                    stubs=("E3",), outside=("bounds elsewhere in such a chromosome (the small-table checks cover every position relative to a bin edge)",),
                    timeout=2400, split_depth=6))
