"""C18 - renaming chromosomes changes names only."""
from __future__ import annotations

import numpy as np

from .common import *  # noqa: F401,F403
from .common import Check, OracleFailure, SymEnv, RealEnv, both, scratch_file, env_pixels, vals
from .model import sym_bins, bins_frame, real_widths

NEW = {"c0": "chromosome_zero_long", "c1": "x", "c2": "c0"}  # longer, shorter, and a name another chromosome used to have
SWAP = {"c0": "c1", "c1": "c0", "c2": "q"}                   # a simultaneous swap: new names equal other chromosomes' old names


def _raw(env, path):
    f = env.h5.File(path, "r")
    out = {}
    for grp in ("pixels", "indexes"):
        for k in f[grp].keys():
            out[f"{grp}/{k}"] = list(f[grp][k][:])
    out["chroms/length"] = list(f["chroms/length"][:])
    out["bins/start"] = list(f["bins/start"][:])
    out["bins/end"] = list(f["bins/end"][:])
    out["bins/chrom"] = list(f["bins/chrom"][:])
    f.close()
    return out


def rename_body(env, p):
    env.reset()
    co = env.cooler
    layout, K = p["layout"], p["K"]
    n, nch = sum(layout), len(layout)
    if env.symbolic:
        bins, widths = sym_bins(layout, 3)
    else:
        widths = real_widths(env.inputs, layout)
        bins = bins_frame(layout, widths, env.pd)
    b1, b2, v = env_pixels(env, n, K)
    path = scratch_file("c18.cool")
    env.build_cooler(path, bins, b1, b2, {"count": v})
    names = [f"c{i}" for i in range(nch)]
    if not p["enum"]:
        # integer chromosome encoding: bins/chrom stored as plain ids with a pointer to chroms/name
        f = env.h5.File(path, "r+")
        ids = [int(x) for x in list(f["bins/chrom"][:])]
        del f["bins/chrom"]
        d = f["bins"].create_dataset("chrom", data=np.array(ids, dtype=np.int32))
        d.attrs["enum_path"] = "/chroms/name"
        f.close()
    clr = co.Cooler(path)
    before = _raw(env, path)
    ext_before = [clr.extent(nm) for nm in names]
    cur = list(names)
    for step in range(p["steps"]):
        flags = [env.bool(f"ren{step}_{i}") for i in range(nch)]
        mapping = {}
        for i in range(nch):
            if bool(flags[i]):
                mapping[cur[i]] = (SWAP if p.get("swap") else NEW)[names[i]] + ("_2" if step else "")
        if p.get("swap") and p.get("reverse_order"):
            mapping = dict(reversed(list(mapping.items())))
        new = [mapping.get(x, x) for x in cur]
        if len(set(new)) != len(new):
            env.assume(False)  # duplicate names are not a renaming
        env.cover("partial_map", 0 < len(mapping) < nch)
        co.rename_chroms(clr, mapping)
        cur = new
        env.check(list(clr.chromnames) == cur, "chromosome names on the same object are not the originals with the substitutions, in order")
        re = co.Cooler(path)
        env.check(list(re.chromnames) == cur, "chromosome names after reopening differ")
        env.check([str(x) for x in vals(re.chroms()[:]["name"])] == cur, "chromosome table names differ")
        bt = re.bins()[:]
        lab = bt["chrom"]
        labels = [str(x) for x in (lab.values if not hasattr(lab, "_col") else lab)]
        exp_labels = [cur[ci] for ci, nb in enumerate(layout) for _ in range(nb)]
        env.check(labels == exp_labels, f"bin table chromosome labels {labels} are not the new names {exp_labels}")
        after = _raw(env, path)
        ok = before.keys() == after.keys() and all(len(before[k]) == len(after[k]) for k in before)
        env.check(and_(ok, *[a == b for k in before for a, b in zip(before[k], after[k])]) if ok else False,
                  "lengths, bins, pixels or indexes changed by the renaming")
        for i, nm in enumerate(cur):
            e = re.extent(nm)
            env.check(and_(e[0] == ext_before[i][0], e[1] == ext_before[i][1]), "a region addressed by the new name does not return what the old name returned")
            e2 = clr.extent(nm)
            env.check(and_(e2[0] == ext_before[i][0], e2[1] == ext_before[i][1]), "lookup by new name on the same object fails")
        for old in names:
            if old not in cur:
                try:
                    clr.extent(old)
                    env.fail("an old name is still accepted after renaming")
                except (ValueError, KeyError):
                    pass
        m0 = re.matrix(balance=False).fetch(cur[0])
        env.check(and_(*[m0[a, b] == ssum([ite(or_(and_(r == a, c == b), and_(r == b, c == a)), x, 0) for r, c, x in zip(b1, b2, v)])
                         for a in range(layout[0]) for b in range(layout[0])]), "matrix query by new name changed")
    return cur


rename_sym, rename_real = both(rename_body)


CHECKS = [
    Check("rename", lambda tier: [dict(layout=l, K=K, steps=s, enum=e) for l, K, s in ([([2, 1], 2, 1), ([1, 1, 1], 1, 2)] if tier == "quick" else
                                                                                       [([2, 1], 2, 1), ([1, 1, 1], 2, 2), ([2, 2], 3, 2)]) for e in (True, False)]
          + [dict(layout=[1, 1, 1], K=1, steps=1, enum=True, swap=True), dict(layout=[1, 1], K=1, steps=1, enum=False, swap=True, reverse_order=True)],
          rename_sym, rename_real, labels=("partial_map",),
          doc="rename_chroms with every subset of chromosomes renamed (longer, shorter, recycled names), chains of 2 renamings, enum and integer "
              "chromosome encodings, symbolic table contents: names substituted in order on the same object and after reopening; raw lengths, bins, "
              "pixels, indexes unchanged; extents and matrix fetch by new name == by old name",
          bounds=dict(quick="<=3 chromosomes, <=3 bins with symbolic widths, K<=2 pixels, <=2 renamings", thorough="<=4 bins, K<=3"),
          stubs=("E3", "E4"), timeout=2400, split_depth=5),
]

MUTANTS = [
    dict(name="cached names not refreshed", file="create/_create.py", old="        _rename_chroms(f, rename_dict, h5opts)\n    clr._refresh()", new="        _rename_chroms(f, rename_dict, h5opts)", checks=["rename"]),
    dict(name="enum mapping keeps old names", file="create/_create.py", old="        idmap = dict(zip(new_names, range(n_chroms)))\n        chrom_ids = bins", new="        idmap = dict(zip(np.array(chroms.index.values, dtype=CHROM_DTYPE), range(n_chroms)))\n        chrom_ids = bins", checks=["rename"]),
    dict(name="names sorted after renaming", file="create/_create.py", old="    new_names = np.array(\n        chroms.rename(rename_dict).index.values, dtype=CHROM_DTYPE\n    )", new="    new_names = np.array(\n        sorted(chroms.rename(rename_dict).index.values), dtype=CHROM_DTYPE\n    )", checks=["rename"]),
    dict(name="chrom ids rewritten shifted", file="create/_create.py", old='        chrom_ids = bins["chrom"].cat.codes\n', new='        chrom_ids = (bins["chrom"].cat.codes + 1) % n_chroms\n', checks=["rename"]),
]
