"""C18 - renaming chromosomes changes names only."""
from __future__ import annotations

import numpy as np

from .common import *  # noqa: F401,F403
from .common import Check, OracleFailure, SymEnv, RealEnv, both, scratch_file, env_pixels, vals
from .model import sym_bins, bins_frame, real_widths

NEW = {"c0": "chromosome_zero_long", "c1": "x", "c2": "c0", "c3": "y3"}  # longer, shorter, and a name another chromosome used to have
SWAP = {"c0": "c1", "c1": "c0", "c2": "q"}                   # a simultaneous swap: new names equal other chromosomes' old names


def _raw(env, path):
    f = env.h5.File(path, "r")
    out = {}
    for grp in ("pixels", "indexes"):
        for k in f[grp].keys():
            out[f"{grp}/{k}"] = list(f[grp][k][:])
    out["chroms/length"] = list(f["chroms/length"][:])
    out["bins/start"] = list(f["bins/start"][:])
    out["bins/end"] = list(f["bins/end"][:])
    out["bins/chrom"] = list(f["bins/chrom"][:])
    f.close()
    return out


def rename_body(env, p):
    env.reset()
    co = env.cooler
    layout, K = p["layout"], p["K"]
    n, nch = sum(layout), len(layout)
    if env.symbolic:
        bins, widths = sym_bins(layout, 3)
    else:
        widths = real_widths(env.inputs, layout)
        bins = bins_frame(layout, widths, env.pd)
    b1, b2, v = env_pixels(env, n, K)
    path = scratch_file("c18.cool")
    env.build_cooler(path, bins, b1, b2, {"count": v})
    names = [f"c{i}" for i in range(nch)]
    if not p["enum"]:
        # integer chromosome encoding: bins/chrom stored as plain ids with a pointer to chroms/name
        f = env.h5.File(path, "r+")
        ids = [int(x) for x in list(f["bins/chrom"][:])]
        del f["bins/chrom"]
        d = f["bins"].create_dataset("chrom", data=np.array(ids, dtype=np.int32))
        d.attrs["enum_path"] = "/chroms/name"
        f.close()
    clr = co.Cooler(path)
    before = _raw(env, path)
    ext_before = [clr.extent(nm) for nm in names]
    cur = list(names)
    for step in range(p["steps"]):
        flags = [env.bool(f"ren{step}_{i}") for i in range(nch)]
        mapping = {}
        for i in range(nch):
            if bool(flags[i]):
                mapping[cur[i]] = (SWAP if p.get("swap") else NEW)[names[i]] + ("_2" if step else "")
        if p.get("swap") and p.get("reverse_order"):
            mapping = dict(reversed(list(mapping.items())))
        new = [mapping.get(x, x) for x in cur]
        if len(set(new)) != len(new):
            env.assume(False)  # duplicate names are not a renaming
        env.cover("partial_map", 0 < len(mapping) < nch)
        co.rename_chroms(clr, mapping)
        cur = new
        env.check(list(clr.chromnames) == cur, "chromosome names on the same object are not the originals with the substitutions, in order")
        re = co.Cooler(path)
        env.check(list(re.chromnames) == cur, "chromosome names after reopening differ")
        env.check([str(x) for x in vals(re.chroms()[:]["name"])] == cur, "chromosome table names differ")
        bt = re.bins()[:]
        lab = bt["chrom"]
        labels = [str(x) for x in (lab.values if not hasattr(lab, "_col") else lab)]
        exp_labels = [cur[ci] for ci, nb in enumerate(layout) for _ in range(nb)]
        env.check(labels == exp_labels, f"bin table chromosome labels {labels} are not the new names {exp_labels}")
        # every name-based view: the joined pixel table names each pixel's chromosomes through the bin table
        for obj, which in ((re, "after reopening"), (clr, "on the same object")):
            if K and p["enum"]:
                # (integer-encoded files: the join attaches the integer chromosome ids, which a renaming does not touch)
                px = obj.pixels(join=True)[:]
                for side, bcol in (("chrom1", b1), ("chrom2", b2)):
                    col = px[side]
                    if env.symbolic and hasattr(col, "cat") and hasattr(col, "_col") and hasattr(col._col, "codes"):
                        # categorical column with symbolic codes: label k is categories[code_k]; expected label of pixel k is the name of its bin's chromosome
                        cats = [str(x) for x in col.cat.categories]
                        codes = vals(col.cat.codes)
                        conds = []
                        for k_, x in enumerate(bcol):
                            for bi_, lab_ in enumerate(exp_labels):
                                conds.append(or_(x != bi_, codes[k_] == (cats.index(lab_) if lab_ in cats else -7)))
                        env.check(and_(*conds), f"joined pixel table {which}: {side} labels (categories {cats}) are not the new names of the pixels' bins")
                    elif not env.symbolic:
                        # (the pandas model returns plain ids for this column after some renamings; the joined table is then judged on the
                        # real stack only, which runs for every explored path)
                        got = [str(x) for x in vals(col)]
                        exp_ = [exp_labels[int(x)] for x in bcol]
                        env.check(got == exp_, f"joined pixel table {which}: {side} labels {got} are not the new names {exp_}")
            lab2 = obj.bins()["chrom"][:]
            got2 = [str(x) for x in vals(lab2)]
            env.check(got2 == exp_labels, f"bins()['chrom'] {which}: {got2} are not the new names {exp_labels}")
        after = _raw(env, path)
        ok = before.keys() == after.keys() and all(len(before[k]) == len(after[k]) for k in before)
        env.check(and_(ok, *[a == b for k in before for a, b in zip(before[k], after[k])]) if ok else False,
                  "lengths, bins, pixels or indexes changed by the renaming")
        for i, nm in enumerate(cur):
            e = re.extent(nm)
            env.check(and_(e[0] == ext_before[i][0], e[1] == ext_before[i][1]), "a region addressed by the new name does not return what the old name returned")
            e2 = clr.extent(nm)
            env.check(and_(e2[0] == ext_before[i][0], e2[1] == ext_before[i][1]), "lookup by new name on the same object fails")
        for old in names:
            if old not in cur:
                try:
                    clr.extent(old)
                    env.fail("an old name is still accepted after renaming")
                except (ValueError, KeyError):
                    pass
        m0 = re.matrix(balance=False).fetch(cur[0])
        env.check(and_(*[m0[a, b] == ssum([ite(or_(and_(r == a, c == b), and_(r == b, c == a)), x, 0) for r, c, x in zip(b1, b2, v)])
                         for a in range(layout[0]) for b in range(layout[0])]), "matrix query by new name changed")
    return cur


rename_sym, rename_real = both(rename_body)


def reuse_body(env, p):
    """one renaming map applied to several coolers in turn (a batch of samples, the levels of a multi-resolution file): each cooler is
    renamed by the map it is given, whatever was renamed before it - the first cooler lacks the last chromosome of the second"""
    env.reset()
    co = env.cooler
    layout = p["layout"]
    nch = len(layout)
    names = [f"c{i}" for i in range(nch)]
    from .model import concrete_bins
    paths = []
    for tag, lay in (("x", layout[:-1]), ("y", layout)):
        bins = concrete_bins(lay, "fixed")
        b1, b2, v = env_pixels(env, sum(lay), 1, prefix=tag)
        path = scratch_file(f"c18_{tag}.cool")
        env.build_cooler(path, bins, b1, b2, {"count": v})
        paths.append(path)
    flags = [env.bool(f"ren_{i}") for i in range(nch)]
    mapping = {names[i]: NEW[names[i]] for i in range(nch) if bool(flags[i])}
    env.cover("renames_missing_chromosome", names[-1] in mapping)
    if any(len(set(asked_names)) != len(asked_names) for asked_names in ([mapping.get(x, x) for x in names], [mapping.get(x, x) for x in names[:-1]])):
        env.assume(False)       # duplicate names are not a renaming
    asked = dict(mapping)       # what the caller asked for (the object handed to the library is the caller's own)
    out = []
    for path, lay in zip(paths, (layout[:-1], layout)):
        clr = co.Cooler(path)
        co.rename_chroms(clr, mapping)
        exp = [asked.get(x, x) for x in names[:len(lay)]]
        env.check(list(clr.chromnames) == exp and list(co.Cooler(path).chromnames) == exp,
                  f"cooler with chromosomes {names[:len(lay)]} renamed with {asked}: names are {list(clr.chromnames)}, expected {exp}")
        out.append(list(clr.chromnames))
    return out


reuse_sym, reuse_real = both(reuse_body)


CHECKS = [
    Check("rename", lambda tier: [dict(layout=l, K=K, steps=s, enum=e) for l, K, s in ([([2, 1], 2, 1), ([1, 1, 1], 1, 2)] if tier == "quick" else
                                                                                       [([2, 1], 2, 1), ([1, 1, 1], 2, 2), ([2, 2], 3, 2)]) for e in (True, False)]
          + [dict(layout=[1, 1, 1], K=1, steps=1, enum=True, swap=True), dict(layout=[1, 1], K=1, steps=1, enum=False, swap=True, reverse_order=True)],
          rename_sym, rename_real, labels=("partial_map",),
          doc="rename_chroms with every subset of chromosomes renamed (longer, shorter, recycled names), chains of 2 renamings, enum and integer "
              "chromosome encodings, symbolic table contents: names substituted in order on the same object and after reopening; raw lengths, bins, "
              "pixels, indexes unchanged; extents and matrix fetch by new name == by old name",
          bounds=dict(quick="<=3 chromosomes, <=3 bins with symbolic widths, K<=2 pixels, <=2 renamings", thorough="<=4 bins, K<=3"),
          stubs=("E3", "E4"), timeout=2400, split_depth=5),
    Check("map_reuse", lambda tier: [dict(layout=[1, 2]), dict(layout=[1, 1, 1])] if tier == "quick" else [dict(layout=[1, 2]), dict(layout=[1, 1, 1]), dict(layout=[2, 1, 2, 1])],
          reuse_sym, reuse_real, labels=("renames_missing_chromosome",),
          doc="one renaming map (every subset of names) applied to two coolers in turn, the first of which lacks the last chromosome: each is renamed "
              "by the map it was given",
          bounds=dict(quick="<=3 chromosomes", thorough="<=4"), stubs=("E3", "E4")),
]

MUTANTS = [
    dict(name="cached names not refreshed", file="create/_create.py", old="        _rename_chroms(f, rename_dict, h5opts)\n    clr._refresh()", new="        _rename_chroms(f, rename_dict, h5opts)", checks=["rename"]),
    dict(name="enum mapping keeps old names", file="create/_create.py", old="        idmap = dict(zip(new_names, range(n_chroms)))\n        chrom_ids = bins", new="        idmap = dict(zip(np.array(chroms.index.values, dtype=CHROM_DTYPE), range(n_chroms)))\n        chrom_ids = bins", checks=["rename"]),
    dict(name="names sorted after renaming", file="create/_create.py", old="    new_names = np.array(\n        chroms.rename(rename_dict).index.values, dtype=CHROM_DTYPE\n    )", new="    new_names = np.array(\n        sorted(chroms.rename(rename_dict).index.values), dtype=CHROM_DTYPE\n    )", checks=["rename"]),
    dict(name="chrom ids rewritten shifted", file="create/_create.py", old='        chrom_ids = bins["chrom"].cat.codes\n', new='        chrom_ids = (bins["chrom"].cat.codes + 1) % n_chroms\n', checks=["rename"]),
]

MUTANTS += [
    dict(name="rename map pruned in place", file="create/_create.py", old="    chroms = get(grp[\"chroms\"]).set_index(\"name\")\n    n_chroms = len(chroms)\n    new_names = np.array(",
         new="    chroms = get(grp[\"chroms\"]).set_index(\"name\")\n    n_chroms = len(chroms)\n    for _k in [k for k in rename_dict if k not in chroms.index]:\n        del rename_dict[_k]\n    new_names = np.array(", checks=["map_reuse"]),
]
