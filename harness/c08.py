"""C08 - coarsening by k is exact block aggregation within each chromosome."""
from __future__ import annotations

import numpy as np

from .common import *  # noqa: F401,F403
from .common import (Check, OracleFailure, SymEnv, sym_pixels, pixels_from_inputs, scratch_file, symcooler)
from .model import (concrete_bins, build_cooler_sym, build_cooler_real, read_pixels_sym, read_pixels_real, validity_sym, validity_real)
from engine.symnp import _sel


def _coarse_geometry(bins, k):
    """reference: new bin table and old->new bin id map, per chromosome blocks of k consecutive old bins"""
    newid, rows = [], []
    chroms = list(dict.fromkeys(bins["chrom"].tolist()))
    nxt = 0
    for c in chroms:
        sub = bins[bins["chrom"] == c]
        starts, ends = sub["start"].tolist(), sub["end"].tolist()
        for i in range(len(starts)):
            if i % k == 0:
                rows.append([c, starts[i], ends[i]])
                nxt += 1
            else:
                rows[-1][2] = ends[i]
            newid.append(nxt - 1)
    return rows, newid


def _bins_for(p):
    bins = concrete_bins(p["layout"], p["kind"], **({"b": p["b"]} if p.get("b") else {}))
    if p.get("chrom_names"):
        # chromosome names whose given order is not the lexicographic one
        bins["chrom"] = bins["chrom"].map({f"c{i}": nm for i, nm in enumerate(p["chrom_names"])})
    return bins


def coarsen_sym(p):
    from engine import symh5
    symh5.reset()
    sc = symcooler()
    layout, K, upper, nproc = p["layout"], p["K"], p["upper"], p["nproc"]
    n = sum(layout)
    bins = _bins_for(p)
    b1, b2, v = sym_pixels(n, K, upper)
    w = [sym_int(f"w{q}", 1, 9) for q in range(K)]
    cdt = "int32"
    if p.get("float_counts"):
        # a source whose count column is float64 with fractional values, coarsened without an explicit dtype: sums must stay exact
        from engine.symcore import SReal
        v = [SReal.of(x) / 4 for x in v]
        cdt = "float64"
    src = build_cooler_sym(scratch_file("c08_in.cool"), bins, b1, b2, {"count": v, "w": w}, upper, dtypes={"w": "int64", "count": cdt})
    k = concretize(sym_int("factor", 2, p["kmax"]))
    cs = concretize(sym_int("chunksize", 1, K + 1))
    out = scratch_file("c08_out.cool")
    rows, newid = _coarse_geometry(bins, k)
    cover("factor_exceeds_chromosome", any(nb < k for nb in layout))
    cover("chunk_smaller_than_row", or_(*[ssum([ite(x == r, 1, 0) for x in b1]) > cs for r in range(n)]) if K else False)
    sc.coarsen_cooler(src, out, k, cs, nproc=nproc, columns=["count", "w"], agg={"w": p["agg"]} if p["agg"] != "sum" else None,
                      **({"dtypes": {"w": np.dtype("int64")}} if p.get("partial_dtypes") else {}))
    for cond, msg in validity_sym(out):
        prove(cond, "coarsened output: " + msg)
    g = symh5.File(out, "r")
    nb = [list(g["bins/chrom"][:]), list(g["bins/start"][:]), list(g["bins/end"][:])]
    names = list(dict.fromkeys(bins["chrom"].tolist()))
    got_names = [x.decode() if isinstance(x, bytes) else str(x) for x in g["chroms/name"][:]]
    prove(got_names == names, f"chromosome table of the output {got_names} is not the source's, in its order {names}")
    exp_rows = [[names.index(r[0]), r[1], r[2]] for r in rows]
    prove(len(nb[0]) == len(exp_rows) and and_(*[and_(nb[0][i] == e[0], nb[1][i] == e[1], nb[2][i] == e[2]) for i, e in enumerate(exp_rows)]),
          "new bin table is not the union of k consecutive old bins per chromosome")
    pix, attrs = read_pixels_sym(out)
    o1, o2, oc, ow = pix["bin1_id"], pix["bin2_id"], pix["count"], pix["w"]
    I = [_sel(newid, x) if K else None for x in b1]
    J = [_sel(newid, x) for x in b2]
    conds = []
    for t in range(len(o1)):
        conds.append(oc[t] == ssum([ite(and_(I[q] == o1[t], J[q] == o2[t]), v[q], 0) for q in range(K)]))
        if p["agg"] == "sum":
            conds.append(ow[t] == ssum([ite(and_(I[q] == o1[t], J[q] == o2[t]), w[q], 0) for q in range(K)]))
        else:
            acc = 0
            for q in range(K):
                acc = ite(and_(I[q] == o1[t], J[q] == o2[t], w[q] > acc), w[q], acc)
            conds.append(ow[t] == acc)
    prove(and_(*conds), "a coarse pixel is not the aggregate of exactly the old pixels whose bins fall into it")
    prove(and_(*[or_(*[and_(o1[t] == I[q], o2[t] == J[q]) for t in range(len(o1))]) for q in range(K)]),
          "an old pixel's block is missing from the coarsened output")
    prove(attrs["sum"] == ssum(v), "total not preserved")
    return dict(pix=pix, bins=nb, sum=attrs["sum"])


def coarsen_real(p, inputs):
    import cooler
    import h5py
    layout, K, upper, nproc = p["layout"], p["K"], p["upper"], p["nproc"]
    bins = _bins_for(p)
    b1, b2, v = pixels_from_inputs(inputs, K)
    w = [inputs[f"w{q}"] for q in range(K)]
    cdt = "int32"
    if p.get("float_counts"):
        v = [x / 4 for x in v]
        cdt = "float64"
    src = build_cooler_real(scratch_file("c08_in.cool"), bins, b1, b2, {"count": v, "w": w}, upper, dtypes={"w": "int64", "count": cdt})
    k, cs = inputs["factor"], inputs["chunksize"]
    out = scratch_file("c08_out.cool")
    cooler.coarsen_cooler(src, out, k, cs, nproc=nproc, columns=["count", "w"], agg={"w": p["agg"]} if p["agg"] != "sum" else None,
                          **({"dtypes": {"w": np.dtype("int64")}} if p.get("partial_dtypes") else {}))
    validity_real(out)
    rows, newid = _coarse_geometry(bins, k)
    names = list(dict.fromkeys(bins["chrom"].tolist()))
    with h5py.File(out, "r") as g:
        nb = [g["bins/chrom"][:].tolist(), g["bins/start"][:].tolist(), g["bins/end"][:].tolist()]
        got_names = [x.decode() if isinstance(x, bytes) else str(x) for x in g["chroms/name"][:]]
    if got_names != names:
        raise OracleFailure(f"chromosome table of the output {got_names} is not the source's, in its order {names}")
    exp_rows = [[names.index(r[0]), r[1], r[2]] for r in rows]
    if [list(x) for x in zip(*nb)] != exp_rows:
        raise OracleFailure(f"new bin table {list(zip(*nb))} is not the union of {k} consecutive old bins per chromosome {exp_rows}")
    exp = {}
    for r, c, x, y in zip(b1, b2, v, w):
        e = exp.setdefault((newid[r], newid[c]), [0, 0])
        e[0] += x
        e[1] = e[1] + y if p["agg"] == "sum" else max(e[1], y)
    pix, attrs = read_pixels_real(out)
    got = {(r, c): [x, y] for r, c, x, y in zip(pix["bin1_id"], pix["bin2_id"], pix["count"], pix["w"])}
    if got != exp or len(pix["bin1_id"]) != len(exp):
        raise OracleFailure(f"coarsened pixels {got} differ from block aggregation {exp}")
    if float(attrs["sum"]) != sum(v):
        raise OracleFailure("total not preserved")
    return dict(pix=pix, bins=nb, sum=attrs["sum"])


def _cases(tier):
    out = []
    if tier == "quick":
        specs = [((3,), "fixed", 2, 1, 3), ((2, 1), "variable", 2, 1, 3), ((1, 3), "fixed", 2, 2, 2), ((4,), "even", 2, 1, 3),
                 ((4,), "even", 3, 2, 2)]   # three pixels, two workers: batches of spans of unequal size
    else:
        specs = [((3,), "fixed", 2, 1, 4), ((2, 1), "variable", 2, 1, 3), ((1, 3), "fixed", 3, 2, 3), ((4,), "even", 3, 1, 4), ((2, 3), "variable", 3, 3, 3),
                 ((5,), "fixed", 3, 1, 4), ((1, 1, 2), "fixed", 3, 2, 2), ((3, 3), "even", 3, 1, 3)]
    for layout, kind, K, nproc, kmax in specs:
        for upper in (True, False):
            for agg in ("sum", "max"):
                if agg == "max" and not upper:
                    continue
                c = dict(layout=list(layout), kind=kind, K=K, upper=upper, nproc=nproc, kmax=kmax, agg=agg)
                if nproc > 1:
                    c["validate_every"] = 5  # the real run forks real worker processes: sample these
                out.append(c)
    # chromosome names whose order in the file is not the lexicographic one
    out.append(dict(layout=[2, 1], kind="variable", K=2, upper=True, nproc=1, kmax=2, agg="sum", chrom_names=["chr2", "chr10"]))
    # three coarse rows over variable-width bins, square storage: a column may lie two coarse bins before the row of a span's first pixel
    out.append(dict(layout=[5], kind="variable", K=2, upper=False, nproc=1, kmax=2, agg="sum"))
    # a genome longer than 2^31 bp whose chromosomes each fit the int32 coordinate columns (variable-width and fixed-width bins)
    out.append(dict(layout=[2, 2], kind="variable", K=2, upper=False, nproc=1, kmax=2, agg="sum", b=6 * 10**8))
    out.append(dict(layout=[2, 2], kind="fixed", K=2, upper=True, nproc=1, kmax=2, agg="sum", b=10**9))
    # a float64 count column with fractional values, coarsened without an explicit dtype
    out.append(dict(layout=[3], kind="fixed", K=2, upper=True, nproc=1, kmax=2, agg="sum", float_counts=True))
    # ... and with a dtypes dict that names only some of the columns: the others keep the source's types
    out.append(dict(layout=[3], kind="fixed", K=2, upper=True, nproc=1, kmax=2, agg="sum", float_counts=True, partial_dtypes=True))
    return out


# ---------------------------------------------------------------------------
# arithmetic lemma behind composition: (x div k1) div k2 == x div (k1*k2), unbounded x
# ---------------------------------------------------------------------------
def lemma_sym(p):
    k1, k2 = p["k1"], p["k2"]
    x = sym_int("x", 0)
    prove((x // k1) // k2 == x // (k1 * k2), "(x div k1) div k2 != x div (k1*k2)")
    return [k1, k2]


def lemma_real(p, inputs):
    x = inputs["x"]
    if (x // p["k1"]) // p["k2"] != x // (p["k1"] * p["k2"]):
        raise OracleFailure("lemma")
    return [p["k1"], p["k2"]]


CHECKS = [
    Check("coarsen", _cases, coarsen_sym, coarsen_real, labels=("factor_exceeds_chromosome", "chunk_smaller_than_row"),
          doc="coarsen_cooler on an arbitrary valid collection: new bin table, per-block exact aggregate, totals, schema validity; "
              "factor, chunk size solver-chosen; batches of 1-3 spans through an ordered map",
          bounds=dict(quick="n<=4 bins, <=2 chromosomes, K<=3 pixels, factor 2..3, chunksize 1..K+1, nproc 1-2",
                      thorough="n<=6, <=3 chromosomes, K<=4, factor 2..4, nproc 1-3"),
          stubs=("E3 in-memory h5py model", "E4 pandas models", "E7 ordered parallel map returns results in key order; no real processes"),
          outside=("OS scheduling of real worker processes",), timeout=3000, split_depth=10),
    Check("compose_lemma", lambda tier: [dict(k1=a, k2=b) for a in range(2, 5 if tier == "quick" else 9) for b in range(2, 5 if tier == "quick" else 9)],
          lemma_sym, lemma_real, doc="(x div k1) div k2 == x div (k1*k2) for unbounded x: with per-level exactness this gives composition on fixed-width bins",
          bounds=dict(quick="k1,k2 in 2..4, x unbounded", thorough="k1,k2 in 2..8")),
]

MUTANTS = [
    dict(name="revert F17 fix (extra columns dropped)", file="_reduce.py", old="            iterator,\n            columns=columns,\n            dtypes=dtypes,\n            symmetric_upper=clr.storage_mode",
         new="            iterator,\n            dtypes=dtypes,\n            symmetric_upper=clr.storage_mode", checks=["coarsen"]),
    dict(name="edges ignore chromosome boundaries", file="_reduce.py", old="            edges.extend(self.old_bin1_offset[c0:c1:factor])\n        edges.append(self.old_bin1_offset[-1])",
         new="            pass\n        edges.extend(self.old_bin1_offset[0:-1:factor])\n        edges.append(self.old_bin1_offset[-1])", checks=["coarsen"]),
    dict(name="edges every bin (coarse rows split across spans)", file="_reduce.py", old="            edges.extend(self.old_bin1_offset[c0:c1:factor])", new="            edges.extend(self.old_bin1_offset[c0:c1:1])", checks=["coarsen"]),
    dict(name="coarsen_bins: end of short last group not clamped", file="_reduce.py", old="                end = np.r_[end, chromsizes[group.name]]", new="                end = np.r_[end, end[-1] if len(end) else 0]", checks=["coarsen"]),
    dict(name="re-binning uses end coordinate", file="_reduce.py", old='        start1 = chunk["start1"].values', new='        start1 = chunk["end1"].values', checks=["coarsen"]),
    dict(name="variable path searchsorted left", file="_reduce.py", old='                np.searchsorted(start_abspos, abs_start1, side="right") - 1', new='                np.searchsorted(start_abspos, abs_start1, side="left") - 1', checks=["coarsen"]),
    dict(name="batching skips a span", file="_reduce.py", old="                results = self._map(self.aggregate, spans[i : i + batchsize])", new="                results = self._map(self.aggregate, spans[i : i + max(batchsize - 1, 1)])", checks=["coarsen"]),
    dict(name="greedy prune drops last edge", file="_reduce.py", old="    cuts.append(cumlen[-1])\n", new="", checks=["coarsen"]),
]


# ---------------------------------------------------------------------------
# block sums near the limit of the value type: stored == exact, or an error
# ---------------------------------------------------------------------------
def coverflow_sym(p):
    from engine import symh5
    symh5.reset()
    sc = symcooler()
    bins = concrete_bins([4], "even")
    src_dt, dst_dt = p["src"], p.get("dst")
    smax = int(np.iinfo(src_dt).max)
    hi = int(np.iinfo(dst_dt or src_dt).max)
    v0, v1 = sym_int("v0", 1, smax), sym_int("v1", 1, smax)
    # pixels (0,2) and (1,3) fall into the same coarse pixel (0,1) at factor 2
    src = build_cooler_sym(scratch_file("c08o_in.cool"), bins, [0, 1], [2, 3], {"count": [v0, v1]}, True, dtypes={"count": src_dt})
    out = scratch_file("c08o_out.cool")
    cover("exceeds_type", v0 + v1 > hi)
    try:
        sc.coarsen_cooler(src, out, 2, 10, **({"dtypes": {"count": np.dtype(dst_dt)}} if dst_dt else {}))
    except (ValueError, OverflowError):
        prove(v0 + v1 > hi, "coarsening refused although the block sum fits the output type")
        return ["raises", "ValueError"]
    pix, attrs = read_pixels_sym(out)
    prove(and_(len(pix["count"]) == 1, pix["count"][0] == v0 + v1) if len(pix["count"]) == 1 else False,
          "stored block sum silently differs from the exact sum (does not fit / wrapped)")
    return pix["count"]


def coverflow_real(p, inputs):
    import cooler
    bins = concrete_bins([4], "even")
    src_dt, dst_dt = p["src"], p.get("dst")
    v0, v1 = inputs["v0"], inputs["v1"]
    src = build_cooler_real(scratch_file("c08o_in.cool"), bins, [0, 1], [2, 3], {"count": [v0, v1]}, True, dtypes={"count": src_dt})
    out = scratch_file("c08o_out.cool")
    try:
        cooler.coarsen_cooler(src, out, 2, 10, **({"dtypes": {"count": np.dtype(dst_dt)}} if dst_dt else {}))
    except (ValueError, OverflowError):
        if v0 + v1 <= int(np.iinfo(dst_dt or src_dt).max):
            raise OracleFailure("coarsening refused although the block sum fits the output type")
        return ["raises", "ValueError"]
    pix, attrs = read_pixels_real(out)
    if pix["count"] != [v0 + v1]:
        raise OracleFailure(f"stored block sum {pix['count']} silently differs from the exact sum {v0 + v1}")
    return pix["count"]


CHECKS.append(Check("overflow", lambda tier: [dict(src="int32"), dict(src="int32", dst="int64"), dict(src="int16", dst="int32"), dict(src="uint8")],
                    coverflow_sym, coverflow_real, labels=("exceeds_type",),
                    doc="two source pixels of one coarse block with arbitrary values of the source type: stored block sum == exact sum or the operation is refused; "
                        "with a wider requested dtype the sum is exact",
                    bounds=dict(values="full positive range of int32 / int16 / uint8 sources")))


# ---------------------------------------------------------------------------
# the clauses "composes (k1 then k2 == k1*k2 on fixed-width bins)" and "commutes with merging", executed end to end
# ---------------------------------------------------------------------------
def _chain_body(env, p):
    """compose: coarsen(coarsen(S, k1), k2) == coarsen(S, k1*k2); commute: coarsen(merge(S1, S2), k) == merge(coarsen(S1, k), coarsen(S2, k)).
    Both sides run through the real source; the two results must be the same collection (bin table, pixel table, total)."""
    env.reset()
    layout, K, upper = p["layout"], p["K"], p["upper"]
    n = sum(layout)
    bins = concrete_bins(layout, "even")
    read = read_pixels_sym if env.symbolic else read_pixels_real
    cool = env.cooler
    cs = env.choice("chunksize", K + 1) + 1

    def tables(path):
        f = env.h5.File(path, "r")
        t = [[int(x) for x in f["bins/chrom"][:]], [int(x) for x in f["bins/start"][:]], [int(x) for x in f["bins/end"][:]]]
        f.close()
        return t

    def same(a, b, what):
        ta, tb = tables(a), tables(b)
        env.check(ta == tb, f"{what}: the two results have different bin tables {ta} vs {tb}")
        (pa, aa), (pb, ab) = read(a), read(b)
        if len(pa["bin1_id"]) != len(pb["bin1_id"]):
            env.fail(f"{what}: the two results have {len(pa['bin1_id'])} and {len(pb['bin1_id'])} pixels")
        env.check(and_(*[x == y for col in ("bin1_id", "bin2_id", "count") for x, y in zip(pa[col], pb[col])]),
                  f"{what}: the two results differ in a pixel")
        env.check(aa["sum"] == ab["sum"], f"{what}: totals differ")
        return pa, aa

    if p["mode"] == "compose":
        b1, b2, v = env_pixels(env, n, K, upper)
        src = env.build_cooler(scratch_file("c08c_in.cool"), bins, b1, b2, {"count": v}, upper)
        k1, k2 = p["k1"], p["k2"]
        mid, two, one = scratch_file("c08c_mid.cool"), scratch_file("c08c_two.cool"), scratch_file("c08c_one.cool")
        cool.coarsen_cooler(src, mid, k1, cs)
        cool.coarsen_cooler(mid, two, k2, cs)
        cool.coarsen_cooler(src, one, k1 * k2, cs)
        if env.symbolic:
            for cond, msg in validity_sym(two):
                prove(cond, "second-level coarsening: " + msg)
        else:
            validity_real(two)
        pa, aa = same(two, one, f"coarsening by {k1} then {k2} vs by {k1 * k2}")
        env.check(aa["sum"] == ssum(list(v)) if env.symbolic else aa["sum"] == sum(v), "total not preserved through the chain")
        return dict(pix=dict(pa), sum=aa["sum"])
    # commute with merging
    k = p["k1"]
    b1, b2, v = env_pixels(env, n, K, upper, prefix="a")
    c1, c2, u = env_pixels(env, n, K, upper, prefix="b")
    if env.symbolic:
        cover("shared_pixel", or_(*[and_(x == y, s == t) for x, s in zip(b1, b2) for y, t in zip(c1, c2)]))
        cover("shared_block_only", True)
    sa = env.build_cooler(scratch_file("c08m_a.cool"), bins, b1, b2, {"count": v}, upper)
    sb = env.build_cooler(scratch_file("c08m_b.cool"), bins, c1, c2, {"count": u}, upper)
    mg, x = scratch_file("c08m_m.cool"), scratch_file("c08m_x.cool")
    ca, cb, y = scratch_file("c08m_ca.cool"), scratch_file("c08m_cb.cool"), scratch_file("c08m_y.cool")
    mb = env.choice("mergebuf", 2 * K + 1) + 1
    cool.merge_coolers(mg, [sa, sb], mergebuf=mb)
    cool.coarsen_cooler(mg, x, k, cs)
    cool.coarsen_cooler(sa, ca, k, cs)
    cool.coarsen_cooler(sb, cb, k, cs)
    cool.merge_coolers(y, [ca, cb], mergebuf=mb)
    if env.symbolic:
        for cond, msg in validity_sym(y):
            prove(cond, "merge of coarsened inputs: " + msg)
    else:
        validity_real(y)
    pa, aa = same(x, y, f"coarsen(merge) vs merge(coarsen), factor {k}")
    env.check(aa["sum"] == (ssum(list(v)) + ssum(list(u)) if env.symbolic else sum(v) + sum(u)), "total not preserved through merge and coarsening")
    return dict(pix=dict(pa), sum=aa["sum"])


chain_sym, chain_real = both(_chain_body)


def _chain_cases(tier):
    out = []
    if tier == "quick":
        out += [dict(mode="compose", layout=[4], K=2, upper=True, k1=2, k2=2), dict(mode="compose", layout=[4, 1], K=1, upper=False, k1=2, k2=2),
                dict(mode="compose", layout=[6], K=1, upper=True, k1=2, k2=3)]
        out += [dict(mode="commute", layout=[3], K=1, upper=True, k1=2), dict(mode="commute", layout=[2, 2], K=1, upper=True, k1=2),
                dict(mode="commute", layout=[3], K=1, upper=False, k1=2)]
    else:
        out += [dict(mode="compose", layout=[4], K=2, upper=u, k1=2, k2=2) for u in (True, False)]
        out += [dict(mode="compose", layout=[6], K=2, upper=True, k1=k1, k2=k2) for k1, k2 in ((2, 3), (3, 2))]
        out += [dict(mode="compose", layout=[5, 2], K=2, upper=False, k1=2, k2=2), dict(mode="compose", layout=[4, 1], K=1, upper=False, k1=2, k2=2)]
        for lay in ([3], [2, 2], [4]):
            for k in (2, 3):
                out.append(dict(mode="commute", layout=lay, K=1, upper=True, k1=k))
        out.append(dict(mode="commute", layout=[4], K=1, upper=False, k1=3))
    return out


CHECKS.append(Check("chain", _chain_cases, chain_sym, chain_real,
                    doc="the composition and merge-commutation clauses executed end to end on symbolic collections: coarsen(k1) then coarsen(k2) "
                        "is the same collection as coarsen(k1*k2) on fixed-width bins; coarsen(merge(A,B)) is the same collection as "
                        "merge(coarsen(A), coarsen(B)); chunk size and merge buffer solver-chosen",
                    bounds=dict(quick="n<=6 bins, <=2 chromosomes, K<=2 pixels, (k1,k2) in {(2,2),(2,3)}; commutation: merge of 2 inputs of 1 pixel, n<=4, factor 2",
                                thorough="n<=7 bins, <=2 chromosomes, K<=2 (compose), (k1,k2) in {(2,2),(2,3),(3,2)}; commutation: 1 pixel per input, n<=4"),
                    stubs=("E3 in-memory h5py model", "E4 pandas models", "E7 ordered map"),
                    outside=("variable-width bins for composition (the property states it for fixed-width bins)",), timeout=3000, split_depth=8))
