"""C02 - every collection any operation writes is a structurally valid CSR collection."""
from __future__ import annotations

import numpy as np

from .common import *  # noqa: F401,F403
from .common import (Check, OracleFailure, SymEnv, RealEnv, both, sym_pixels, pixels_from_inputs, scratch_file, symcooler)
from .model import concrete_bins, sym_cuts, real_cuts, chunk_stream, validity_sym, validity_real


def prove_valid(path, group="/"):
    for cond, msg in validity_sym(path, group):
        prove(cond, "schema validity: " + msg)


# ---------------------------------------------------------------------------
# producer: ordered create() from an arbitrary sorted stream (incl. zero chunks, empty chunks)
# ---------------------------------------------------------------------------
def create_sym(p):
    from engine import symh5
    symh5.reset()
    sc = symcooler()
    layout, K, m, upper = p["layout"], p["K"], p["m"], p["upper"]
    n = sum(layout)
    bins = concrete_bins(layout, p["kind"])
    b1, b2, v = sym_pixels(n, K, upper)
    cols = {"bin1_id": b1, "bin2_id": b2, "count": v}
    cuts = sym_cuts(K, m) if m else [0]
    dts = {"bin1_id": "int64", "bin2_id": "int64", "count": "int32"}
    path = scratch_file("c02.cool")
    stream = chunk_stream(cols, cuts, lambda items, k: SArr(list(items), dts[k])) if m else iter([])
    if p.get("table"):
        # the whole table in one piece (dict / DataFrame), rows in a solver-chosen order: create_cooler has to sort it
        import itertools
        from engine import sympd
        perms = list(itertools.permutations(range(K)))
        perm = perms[concretize(sym_int("perm", 0, len(perms) - 1))]
        cover("table_unsorted", list(perm) != list(range(K)))
        stream = {k: SArr([col[j] for j in perm], dts[k]) for k, col in cols.items()}
        if p["table"] == "df":
            stream = sympd.DataFrame(stream)
    sc.create_cooler(path, bins, stream, ordered=True, symmetric_upper=upper)
    cover("zero_chunks", m == 0)
    cover("empty_rows", or_(*[and_(*[x != k for x in b1]) for k in range(n)]) if K else True)
    prove_valid(path)
    from engine import symh5 as h
    g = h.File(path, "r")
    return dict(off=g["indexes/bin1_offset"][:], nnz=g.attrs["nnz"], lens=[len(g["pixels"][k]) for k in ("bin1_id", "bin2_id", "count")])


def create_real(p, inputs):
    import cooler
    import h5py
    layout, K, m, upper = p["layout"], p["K"], p["m"], p["upper"]
    bins = concrete_bins(layout, p["kind"])
    b1, b2, v = pixels_from_inputs(inputs, K)
    cols = {"bin1_id": b1, "bin2_id": b2, "count": v}
    cuts = real_cuts(inputs, K, m) if m else [0]
    dts = {"bin1_id": "int64", "bin2_id": "int64", "count": "int32"}
    path = scratch_file("c02.cool")
    stream = chunk_stream(cols, cuts, lambda items, k: np.array(list(items), dtype=dts[k])) if m else iter([])
    if p.get("table"):
        import itertools
        import pandas as pd
        perm = list(itertools.permutations(range(K)))[inputs["perm"]]
        stream = {k: np.array([col[j] for j in perm], dtype=dts[k]) for k, col in cols.items()}
        if p["table"] == "df":
            stream = pd.DataFrame(stream)
    cooler.create_cooler(path, bins, stream, ordered=True, symmetric_upper=upper)
    validity_real(path)
    with h5py.File(path, "r") as g:
        return dict(off=g["indexes/bin1_offset"][:], nnz=g.attrs["nnz"], lens=[len(g["pixels"][k]) for k in ("bin1_id", "bin2_id", "count")])


def _create_cases(tier):
    out = []
    specs = [((2,), "fixed", 0, 0), ((2,), "fixed", 2, 2), ((2, 1), "variable", 3, 2), ((1, 2), "fixed", 2, 1)]
    if tier != "quick":
        specs += [((2, 2), "variable", 3, 3), ((1, 1, 2), "fixed", 4, 3), ((3,), "even", 4, 2), ((1, 1), "fixed", 0, 0)]
    for layout, kind, K, m in specs:
        for upper in (True, False):
            out.append(dict(layout=list(layout), kind=kind, K=K, m=m, upper=upper))
    out.append(dict(layout=[2], kind="fixed", K=3, m=1, upper=False, table="df"))
    out.append(dict(layout=[2, 1], kind="fixed", K=3, m=1, upper=True, table="dict"))
    return out


# ---------------------------------------------------------------------------
# the index builder across its internal block boundary (block size symbolic instead of 1e6)
# ---------------------------------------------------------------------------
def index_body(env, p):
    cr = env.mod("create._create")
    L, n = p["L"], p["n"]
    if env.symbolic:
        b1 = [sym_int(f"b{q}", 0, n - 1) for q in range(L)]
        for q in range(1, L):
            CTX.add(b1[q - 1].e <= b1[q].e)
    else:
        b1 = [env.inputs[f"b{q}"] for q in range(L)]
    block = env.int("block", 1, L + 1)
    orig = cr.rlencode
    cr.rlencode = lambda arr, chunksize=None: orig(arr, block)  # same code, small blocks
    try:
        off = cr.index_pixels({"bin1_id": env.array(b1, "int64")}, n, L)
    finally:
        cr.rlencode = orig
    off = list(off)
    env.cover("run_spans_blocks", and_(block < L, or_(*[b1[q] == b1[q + 1] for q in range(L - 1)]) if L > 1 else False))
    if len(off) != n + 1:
        env.fail(f"bin1_offset has length {len(off)}")
    else:
        env.check(and_(*[off[k] == ssum([ite(x < k, 1, 0) for x in b1]) for k in range(n + 1)]),
                  "index_pixels/rlencode: offsets are not the run-length index of the row column (block carry-over)")
    return off


index_sym, index_real = both(index_body)


def rle_body(env, p):
    """rlencode itself: starts/lengths/values reconstruct the input for every block size"""
    util = env.mod("util")
    L = p["L"]
    if env.symbolic:
        x = [sym_int(f"x{q}", 0, 2) for q in range(L)]
    else:
        x = [env.inputs[f"x{q}"] for q in range(L)]
    block = env.int("block", 1, L + 1)
    starts, lengths, values = util.rlencode(env.array(x, "int64"), block)
    starts, lengths, values = list(starts), list(lengths), list(values)
    nruns = 1 + sum(1 for q in range(1, L) if bool(x[q] != x[q - 1])) if L else 0
    env.cover("multi_run", nruns > 1)
    if not (len(starts) == len(lengths) == len(values) == nruns):
        env.fail(f"rlencode returned {len(starts)} runs, expected {nruns}")
    else:
        conds = []
        pos = 0
        for s, l, val in zip(starts, lengths, values):
            conds.append(and_(s == pos, l >= 1))
            pos = pos + l
        conds.append(pos == L)
        for q in range(L):
            # value of the run containing q
            conds.append(and_(*[or_(not_(and_(s <= q, q < s + l)), val == x[q]) for s, l, val in zip(starts, lengths, values)]))
        env.check(and_(*conds), "rlencode runs do not reconstruct the input")
    return [starts, lengths, values]


rle_sym, rle_real = both(rle_body)


# ---------------------------------------------------------------------------
# validation options: ensure_sorted must sort every chunk whatever the other checks are set to
# ---------------------------------------------------------------------------
def options_body(env, p):
    import itertools
    env.reset()
    co = env.cooler
    layout, K, m, upper = p["layout"], p["K"], p["m"], p["upper"]
    n = sum(layout)
    bins = concrete_bins(layout, "fixed")
    from .common import env_pixels
    b1, b2, v = env_pixels(env, n, K, upper)
    flags = {k: bool(env.bool(k)) for k in ("boundscheck", "triucheck", "dupcheck")}
    if env.symbolic:
        cuts = sym_cuts(K, m)
    else:
        cuts = real_cuts(env.inputs, K, m)
    # records inside each chunk arrive in a solver-chosen order; ensure_sorted=True has to repair that
    order = []
    for ci, (lo, hi) in enumerate(zip(cuts[:-1], cuts[1:])):
        perms = list(itertools.permutations(range(lo, hi)))
        k = env.choice(f"perm{ci}", len(perms)) if len(perms) > 1 else 0
        order.extend(perms[k])
    env.cover("chunk_unsorted", order != sorted(order))
    dts = {"bin1_id": "int64", "bin2_id": "int64", "count": "int32"}
    cols = {"bin1_id": [b1[i] for i in order], "bin2_id": [b2[i] for i in order], "count": [v[i] for i in order]}
    path = scratch_file("c02o.cool")
    stream = chunk_stream(cols, cuts, lambda items, k: env.array(list(items), dts[k]))
    if p.get("frames"):
        # chunks given as data frames whose row labels are not 0..n-1 (e.g. the result of a shuffle or a filter)
        stream = (env.pd.DataFrame(ch, index=np.array([7 + 3 * ((i * 2) % max(len(next(iter(ch.values()))), 1)) + i for i in range(len(next(iter(ch.values()))))]))
                  for ch in list(stream))
    co.create_cooler(path, bins, stream, ordered=True, symmetric_upper=upper, ensure_sorted=True, **flags)
    if env.symbolic:
        prove_valid(path)
    else:
        validity_real(path)
    f = env.h5.File(path, "r")
    out = [list(f["pixels/bin1_id"][:]), list(f["pixels/bin2_id"][:])]
    f.close()
    return out


options_sym, options_real = both(options_body)


CHECKS = [
    Check("create", _create_cases, create_sym, create_real, labels=("zero_chunks", "empty_rows", "table_unsorted"),
          doc="ordered create() from any sorted stream (zero chunks, empty chunks): raw store satisfies the schema predicate",
          bounds=dict(quick="<=2 chromosomes, n<=3, K<=3, m<=2 chunks (and the zero-chunk stream)", thorough="n<=4, K<=4, m<=3"),
          stubs=("E3 in-memory h5py model", "E4 pandas models on symbolic columns"), timeout=1500),
    Check("create_options", lambda tier: [dict(layout=[2], K=2, m=1, upper=u) for u in (True, False)] + [dict(layout=[2], K=3, m=1, upper=True, frames=True)] + ([dict(layout=[2, 1], K=3, m=2, upper=True)] if tier != "quick" else []),
          options_sym, options_real, labels=("chunk_unsorted",),
          doc="create with ensure_sorted=True and every combination of boundscheck/triucheck/dupcheck, records inside each chunk in a solver-chosen order: "
              "the output is a valid CSR collection",
          bounds=dict(quick="K=2 records in one chunk, 8 flag combinations, both modes", thorough="K=3 in 2 chunks")),
    Check("index_blocks", lambda tier: [dict(L=L, n=n) for L, n in ([(3, 3), (4, 3)] if tier == "quick" else [(3, 3), (5, 4), (6, 4)])],
          index_sym, index_real, labels=("run_spans_blocks",),
          doc="index_pixels with rlencode's block size made symbolic (1..L+1) instead of 1e6: offsets == run-length index",
          bounds=dict(quick="row column length <= 4", thorough="<= 6"),
          outside=("the real 1e6-row block is exercised by one concrete creation in the thorough tier only",)),
    Check("rlencode", lambda tier: [dict(L=L) for L in ((1, 3, 4) if tier == "quick" else (1, 3, 5, 6))],
          rle_sym, rle_real, labels=("multi_run",),
          doc="util.rlencode reconstructs its input for every block size", bounds=dict(quick="L<=4", thorough="L<=6")),
]


# ---------------------------------------------------------------------------
# thorough tier only: ONE concrete creation across the real 1e6-row block of the run-length indexer (a scale test on the real
# stack, not a solver question; the block carry logic is decided by `index_blocks`/`rlencode` for every block size)
# ---------------------------------------------------------------------------
def big_sym(p):
    cover("concrete_scale_run", True)
    return ["valid"]


def big_real(p, inputs):
    import cooler
    import pandas as pd
    n = 1600
    bins = pd.DataFrame({"chrom": ["c0"] * n, "start": np.arange(n) * 10, "end": np.arange(1, n + 1) * 10})
    iu = np.triu_indices(n)
    keep = slice(0, 1_200_000)
    pix = {"bin1_id": iu[0][keep].astype(np.int64), "bin2_id": iu[1][keep].astype(np.int64), "count": np.ones(1_200_000, dtype=np.int32)}
    path = scratch_file("c02big.cool")
    cooler.create_cooler(path, bins, iter([pix]), ordered=True)
    validity_real(path)
    return ["valid"]


CHECKS.append(Check("scale_1e6", lambda tier: [] if tier == "quick" else [dict()], big_sym, big_real, labels=(),
                    doc="thorough only: one real-stack creation with 1.2e6 pixels across the indexer's real block boundary, validated with the schema predicate",
                    bounds=dict(thorough="one concrete input"), timeout=1800))


# ---------------------------------------------------------------------------
# integer value columns over the full range of the type they are handed over in: stored exactly, or refused - never clipped
# ---------------------------------------------------------------------------
def intrange_body(env, p):
    env.reset()
    co = env.cooler
    bins = concrete_bins([2], "fixed")
    src, dst = p["src"], p.get("dst")
    sinfo, dinfo = np.iinfo(src), np.iinfo(dst or "int32")
    v = [env.int(f"v{q}", int(sinfo.min), int(sinfo.max)) for q in range(2)]
    env.assume(and_(v[0] != 0, v[1] != 0))
    fits = and_(*[and_(x >= int(dinfo.min), x <= int(dinfo.max)) for x in v])
    env.cover("does_not_fit", not_(fits))
    env.cover("fits_at_limit", or_(*[x == int(dinfo.max) for x in v]))
    path = scratch_file("c02r.cool")
    chunk = {"bin1_id": env.array([0, 0], "int64"), "bin2_id": env.array([0, 1], "int64"), "count": env.array(v, src)}
    try:
        co.create_cooler(path, bins, iter([chunk]), ordered=True, **({"dtypes": {"count": np.dtype(dst)}} if dst else {}))
    except ValueError:
        env.check(not_(fits), "creation refused although every value fits the stored type")
        return ["raises", "ValueError"]
    if env.symbolic:
        prove_valid(path)
    else:
        validity_real(path)
    f = env.h5.File(path, "r")
    got = list(f["pixels/count"][:])
    tot = f.attrs["sum"]
    f.close()
    env.check(and_(len(got) == 2, got[0] == v[0], got[1] == v[1]) if len(got) == 2 else False,
              "a value that does not fit the stored integer type was stored as a different number instead of being refused")
    return [got, tot]


intrange_sym, intrange_real = both(intrange_body)

CHECKS.append(Check("int_range", lambda tier: [dict(src="int64"), dict(src="uint32"), dict(src="uint16", dst="int16"), dict(src="int32", dst="uint16"), dict(src="uint8")],
                    intrange_sym, intrange_real, labels=("does_not_fit", "fits_at_limit"),
                    doc="create with the value column handed over in a (wider / differently signed / narrower) integer type, values symbolic over the whole "
                        "range of that type: the stored column equals the given one and sum agrees, or creation is refused",
                    bounds=dict(values="full range of int64/uint32/uint16/int32/uint8 sources against int32 (default), int16, uint16 storage; 2 pixels")))
