"""C01 - create-then-read round trip returns exactly the matrix that was stored."""
from __future__ import annotations

import numpy as np

from .common import *  # noqa: F401,F403
from .common import (Check, OracleFailure, SymEnv, sym_pixels, pixels_from_inputs, scratch_file, dense_ref, symcooler)
from .model import concrete_bins, sym_cuts, real_cuts, chunk_stream

META = {"lab": "x", "n": 3, "nested": {"a": [1, 2.5, None], "b": True}}


def _bins_for(p):
    bins = concrete_bins(p["layout"], p["kind"])
    if p.get("chrom_names"):
        # chromosome names whose given order is not the lexicographic one: the order of the bin table is the order of the file
        bins["chrom"] = bins["chrom"].map({f"c{i}": nm for i, nm in enumerate(p["chrom_names"])})
    return bins


def _bins_back(c, bins, check):
    """the bin table, chromosome names and lengths read back are the ones given, in the given order"""
    from .common import vals
    names = list(dict.fromkeys(bins["chrom"].tolist()))
    lens = [int(bins[bins["chrom"] == nm]["end"].max()) for nm in names]
    check(list(c.chromnames) == names and [int(x) for x in vals(c.chromsizes)] == lens,
          f"chromosome names / lengths read back {list(c.chromnames)} are not those of the bin table in its order {names}")
    bt = c.bins()[:]
    check([str(x) for x in vals(bt["chrom"])] == bins["chrom"].tolist() and [int(x) for x in vals(bt["start"])] == bins["start"].tolist()
          and [int(x) for x in vals(bt["end"])] == bins["end"].tolist(), "bin table read back differs from the one given")


def _input_form(form, cols, cuts, mk, pd):
    if form == "df":
        return pd.DataFrame({k: mk(v, k) for k, v in cols.items()})
    if form == "dict":
        return {k: mk(v, k) for k, v in cols.items()}
    return chunk_stream(cols, cuts, mk)


def _prior(co, mk):
    pb = concrete_bins([2], "fixed")
    data = {"bin1_id": mk([0], "bin1_id"), "bin2_id": mk([1], "bin2_id"), "count": mk([1], "count"), "w": mk([5], "w")}
    co.create_cooler(scratch_file("c01_prior.cool"), pb, iter([data]), columns=["count", "w"], dtypes={"w": "int16"}, ordered=True)


def roundtrip_sym(p):
    from engine import symh5, sympd, symnp
    symh5.reset()
    sc = symcooler()
    layout, K, m, upper, form = p["layout"], p["K"], p["m"], p["upper"], p["form"]
    n = sum(layout)
    bins = _bins_for(p)
    b1, b2, v = sym_pixels(n, K, upper, vhi=p.get("vhi", 9))
    w = [sym_int(f"w{q}", -3, 3) for q in range(K)]
    if p.get("prior_int_w"):
        from engine.symcore import SReal
        w = [SReal.of(x) / 2 for x in w]      # halves: only a float column holds them
    cols = {"bin1_id": b1, "bin2_id": b2, "count": v, "w": w}
    cuts = sym_cuts(K, m) if form == "iter" else [0, K]
    cover("count_at_type_limit", or_(*[x == 2**31 - 1 for x in v]) if K else False)
    dts = {"bin1_id": p.get("id_dtype", "int64"), "bin2_id": p.get("id_dtype", "int64"), "count": "int32", "w": "float64"}
    mk = lambda items, k: SArr(list(items), dts[k])  # noqa
    path = scratch_file("c01.cool")
    if form != "iter" and K > 1:
        # a table given in one piece may be in any row order: create_cooler sorts it
        import itertools
        perms = list(itertools.permutations(range(K)))
        perm = perms[concretize(sym_int("perm", 0, len(perms) - 1))]
        cover("table_unsorted", list(perm) != list(range(K)))
        cols = {k: [col[j] for j in perm] for k, col in cols.items()}
    pixels = _input_form(form, cols, cuts, mk, sympd)
    dkw = {"dtypes": {"w": "float64"}}
    if p.get("prior_int_w"):
        # an earlier creation in the same process stored a column of the same name as int16: this creation names no type for it and
        # gets the documented default (float64), whatever happened before
        _prior(sc, lambda items, k: SArr(list(items), {"bin1_id": "int64", "bin2_id": "int64", "count": "int32", "w": "int16"}[k]))
        dkw = {}
    sc.create_cooler(path, bins, pixels, columns=["count", "w"], ordered=True,
                     symmetric_upper=upper, metadata=META, assembly="asm1", **dkw)
    c = sc.Cooler(path)
    tab = c.pixels()[:]
    cover("empty_chunk", any(a == b_ for a, b_ in zip(cuts[:-1], cuts[1:])))
    cover("diagonal", or_(*[x == y for x, y in zip(b1, b2)]) if K else False)
    if "w" not in list(tab.columns) or "count" not in list(tab.columns):
        prove(False, f"a value column is missing from the pixel table read back (columns {list(tab.columns)})")
    elif len(tab) != K:
        prove(False, f"pixel table has {len(tab)} rows, {K} were given")
    else:
        prove(and_(*[and_(tab["bin1_id"].values[q] == b1[q], tab["bin2_id"].values[q] == b2[q],
                          tab["count"].values[q] == v[q], tab["w"].values[q] == w[q]) for q in range(K)]),
              "pixel table read back differs from the records given")
    mat = c.matrix(balance=False)[:]
    matw = c.matrix(balance=False, field="w")[:]
    conds = []
    for a in range(n):
        for b_ in range(n):
            ev = ssum([ite(or_(and_(r == a, cc == b_), and_(r == b_, cc == a)) if upper else and_(r == a, cc == b_), x, 0)
                       for r, cc, x in zip(b1, b2, v)])
            ew = ssum([ite(or_(and_(r == a, cc == b_), and_(r == b_, cc == a)) if upper else and_(r == a, cc == b_), x, 0)
                       for r, cc, x in zip(b1, b2, w)])
            conds.append(mat[a, b_] == ev)
            conds.append(matw[a, b_] == ew)
    prove(and_(*conds), "full-matrix view differs from the stored matrix (symmetric completion / as stored)")
    info = c.info
    prove(info["metadata"] == META and info["genome-assembly"] == "asm1", "metadata or assembly name not returned unchanged")
    prove(info["storage-mode"] == ("symmetric-upper" if upper else "square"), "storage mode flag mixed up")
    _bins_back(c, bins, lambda ok, msg: prove(ok, msg))
    return dict(pixels=tab, matrix=mat, w=matw, nnz=info["nnz"], sum=info["sum"])


def roundtrip_real(p, inputs):
    import cooler
    import pandas as pd
    layout, K, m, upper, form = p["layout"], p["K"], p["m"], p["upper"], p["form"]
    n = sum(layout)
    bins = _bins_for(p)
    b1, b2, v = pixels_from_inputs(inputs, K)
    w = [inputs[f"w{q}"] for q in range(K)]
    if p.get("prior_int_w"):
        w = [x / 2 for x in w]
    cols = {"bin1_id": b1, "bin2_id": b2, "count": v, "w": w}
    cuts = real_cuts(inputs, K, m) if form == "iter" else [0, K]
    dts = {"bin1_id": p.get("id_dtype", "int64"), "bin2_id": p.get("id_dtype", "int64"), "count": "int32", "w": "float64"}
    mk = lambda items, k: np.array(list(items), dtype=dts[k])  # noqa
    path = scratch_file("c01.cool")
    given = cols
    if form != "iter" and K > 1:
        import itertools
        perm = list(itertools.permutations(range(K)))[inputs["perm"]]
        given = {k: [col[j] for j in perm] for k, col in cols.items()}
    dkw = {"dtypes": {"w": "float64"}}
    if p.get("prior_int_w"):
        _prior(cooler, lambda items, k: np.array(list(items), dtype={"bin1_id": "int64", "bin2_id": "int64", "count": "int32", "w": "int16"}[k]))
        dkw = {}
    cooler.create_cooler(path, bins, _input_form(form, given, cuts, mk, pd), columns=["count", "w"],
                         ordered=True, symmetric_upper=upper, metadata=META, assembly="asm1", **dkw)
    c = cooler.Cooler(path)
    tab = c.pixels()[:]
    exp = pd.DataFrame({k: mk(vv, k) for k, vv in cols.items()})
    if any(k not in tab.columns for k in cols):
        raise OracleFailure(f"a value column is missing from the pixel table read back (columns {list(tab.columns)})")
    if len(tab) != K or not all(np.array_equal(tab[k].to_numpy().astype(exp[k].dtype if k in ("count", "w") else "int64"), exp[k].to_numpy()) for k in cols):
        raise OracleFailure(f"pixel table read back {tab.to_dict('list')} differs from the records given {exp.to_dict('list')}")
    mat = c.matrix(balance=False)[:]
    matw = c.matrix(balance=False, field="w")[:]
    if not np.array_equal(mat, dense_ref(n, b1, b2, v, upper)) or not np.array_equal(matw, dense_ref(n, b1, b2, w, upper)):
        raise OracleFailure("full-matrix view differs from the stored matrix")
    info = c.info
    if info["metadata"] != META or info["genome-assembly"] != "asm1":
        raise OracleFailure("metadata or assembly name not returned unchanged")
    if info["storage-mode"] != ("symmetric-upper" if upper else "square"):
        raise OracleFailure("storage mode flag mixed up")

    def _fail(ok, msg):
        if not ok:
            raise OracleFailure(msg)
    _bins_back(c, bins, _fail)
    return dict(pixels={**{k: tab[k].tolist() for k in tab.columns}, "__index__": tab.index.tolist()}, matrix=mat, w=matw,
                nnz=info["nnz"], sum=info["sum"])


def _cases(tier):
    out = []
    if tier == "quick":
        specs = [((2,), "fixed", 2, 2), ((2, 1), "variable", 2, 2), ((1, 2), "fixed", 3, 2)]
    else:
        specs = [((2,), "fixed", 2, 2), ((2, 1), "variable", 2, 2), ((1, 2), "fixed", 3, 3), ((2, 2), "variable", 3, 3),
                 ((1, 1, 2), "fixed", 4, 3), ((3,), "even", 4, 2)]
    for layout, kind, K, m in specs:
        for upper in (True, False):
            for form in ("iter", "df", "dict"):
                if form != "iter" and (K, m) != specs[0][2:]:
                    continue
                out.append(dict(layout=list(layout), kind=kind, K=K, m=m, upper=upper, form=form))
    # values over the whole range of the default count type (every value that fits must be stored, none may be refused)
    out.append(dict(layout=[2], kind="fixed", K=1, m=1, upper=True, form="iter", vhi=2**31 - 1))
    # bin ids handed over in the narrowest integer type that holds them (12 bins in int8): any arithmetic on the id columns
    # inside create happens in that type
    out.append(dict(layout=[2], kind="fixed", K=3, m=1, upper=False, form="df"))
    out.append(dict(layout=[1, 2], kind="variable", K=2, m=2, upper=True, form="iter", chrom_names=["chr2", "chr10"]))
    out.append(dict(layout=[2], kind="fixed", K=1, m=1, upper=True, form="iter", prior_int_w=True))
    out.append(dict(layout=[2], kind="fixed", K=2, m=1, upper=False, form="df", prior_int_w=True))
    out.append(dict(layout=[12], kind="even", K=2, m=1, upper=True, form="df", id_dtype="int8"))
    out.append(dict(layout=[12], kind="even", K=2, m=1, upper=False, form="dict", id_dtype="int8"))
    return out


# ---------------------------------------------------------------------------
# ArrayLoader: dense symmetric array -> upper-triangle chunks by row spans
# ---------------------------------------------------------------------------
def loader_sym(p):
    from engine import symh5
    symh5.reset()
    sc = symcooler()
    from symcooler.create import ArrayLoader
    n = p["n"]
    bins = concrete_bins([n], "even")
    # symmetric dense matrix with symbolic non-negative entries (zero allowed)
    ent = {}
    for a in range(n):
        for b_ in range(a, n):
            ent[(a, b_)] = sym_int(f"m{a}{b_}", 0, 3)
    items = [ent[(min(a, b_), max(a, b_))] for a in range(n) for b_ in range(n)]
    arr = SArr(items, "int64", (n, n))
    cs = sym_int("chunksize", 1, n * n + 1)
    path = scratch_file("c01l.cool")
    ld = ArrayLoader(bins, arr, cs)
    sc.create_cooler(path, bins, ld, ordered=True)
    if p.get("reuse"):
        # the same loader object feeds a second creation: it must deliver the same matrix again
        path = scratch_file("c01l2.cool")
        sc.create_cooler(path, bins, ld, ordered=True)
    c = sc.Cooler(path)
    mat = c.matrix(balance=False)[:]
    cover("has_zero", or_(*[x == 0 for x in ent.values()]))
    cover("small_chunks", cs < n)
    prove(and_(*[mat[a, b_] == items[a * n + b_] for a in range(n) for b_ in range(n)]),
          "matrix read back differs from the dense array loaded")
    tab = c.pixels()[:]
    prove(and_(*[x != 0 for x in tab["count"].values]) if len(tab) else True, "a zero was stored as a pixel")
    return dict(matrix=mat, nnz=len(tab))


def loader_real(p, inputs):
    import cooler
    from cooler.create import ArrayLoader
    n = p["n"]
    bins = concrete_bins([n], "even")
    arr = np.zeros((n, n), dtype=np.int64)
    for a in range(n):
        for b_ in range(a, n):
            arr[a, b_] = arr[b_, a] = inputs[f"m{a}{b_}"]
    path = scratch_file("c01l.cool")
    ld = ArrayLoader(bins, arr, inputs["chunksize"])
    cooler.create_cooler(path, bins, ld, ordered=True)
    if p.get("reuse"):
        path = scratch_file("c01l2.cool")
        cooler.create_cooler(path, bins, ld, ordered=True)
    c = cooler.Cooler(path)
    mat = c.matrix(balance=False)[:]
    if not np.array_equal(mat, arr):
        raise OracleFailure(f"matrix read back {mat.tolist()} differs from the dense array loaded {arr.tolist()}")
    tab = c.pixels()[:]
    if (tab["count"] == 0).any():
        raise OracleFailure("a zero was stored as a pixel")
    return dict(matrix=mat, nnz=len(tab))


CHECKS = [
    Check("roundtrip", _cases, roundtrip_sym, roundtrip_real, labels=("empty_chunk", "diagonal", "count_at_type_limit", "table_unsorted"),
          doc="create_cooler(ordered) -> Cooler.pixels/matrix/info on symbolic sorted records, every chunking, both modes",
          bounds=dict(quick="<=2 chromosomes, n<=3 bins, K<=3 records, m<=2 chunks; forms iterable/DataFrame/dict",
                      thorough="<=3 chromosomes, n<=4, K<=4, m<=3"),
          stubs=("E3 in-memory h5py model (integer writes clip, filters are no-ops)", "E4 pandas models on symbolic columns",
                 "E5 coo_matrix.toarray sums duplicates"),
          outside=("HDF5 filter pipelines (no-ops in the model)", "dask input", "K beyond the bound"), timeout=3000, split_depth=7),
    Check("arrayloader", lambda tier: [dict(n=2), dict(n=3), dict(n=2, reuse=True)] if tier == "quick" else [dict(n=2), dict(n=3), dict(n=4), dict(n=3, reuse=True)],
          loader_sym, loader_real, labels=("has_zero", "small_chunks"),
          doc="ArrayLoader over a symbolic symmetric dense matrix with symbolic chunk size, upper mode",
          bounds=dict(quick="n<=3", thorough="n<=4"), timeout=1500),
]
