"""C16 - text export agrees with the API; re-importing it reproduces the cooler (decided parts: dump option semantics,
field-number wiring of the loaders, resolution-spec expansion of zoomify)."""
from __future__ import annotations

import io
import math
import os

import numpy as np

from .common import *  # noqa: F401,F403
from .common import (Check, OracleFailure, SymEnv, RealEnv, both, scratch_file, scratch, env_pixels, vals, sym_pixels, pixels_from_inputs,
                     symcooler, known_active)
from .model import concrete_bins, build_cooler_sym, build_cooler_real
from engine.symnp import _sel


# (row region, column region, bbox in bins of 10 bp): none, one region, columns downstream of rows, columns UPSTREAM of rows
RANGES = {0: (None, None, None), 1: ("c0:0-20", None, (0, 2, 0, 2)), 2: ("c0:0-20", "c0:10-30", (0, 2, 1, 3)), 3: ("c0:10-30", "c0:0-20", (1, 3, 0, 2)),
          # rows and columns overlap in two bins: the overlap square has a cell below the diagonal
          4: ("c0:0-30", "c0:10-30", (0, 3, 1, 3))}


def PathAbortNow():
    from engine.symcore import PathAbort
    return PathAbort()


# ---------------------------------------------------------------------------
# dump: rows written == the records the options describe
# ---------------------------------------------------------------------------
def _expected_rows(bins, b1, b2, v, upper, fill_lower, join, one_ids, one_starts, bbox):
    """list of (condition, row dict) in storage order for the direct part; the mirrored part is compared as a multiset"""
    i0, i1, j0, j1 = bbox
    K = len(b1)
    starts, ends, chroms = bins["start"].tolist(), bins["end"].tolist(), bins["chrom"].tolist()
    rows = []
    for q in range(K):
        cands = [(b1[q], b2[q], and_(i0 <= b1[q], b1[q] < i1, j0 <= b2[q], b2[q] < j1))]
        if fill_lower and upper:
            cands.append((b2[q], b1[q], and_(b1[q] != b2[q], i0 <= b2[q], b2[q] < i1, j0 <= b1[q], b1[q] < j1)))
        for r, c, cond in cands:
            rows.append((cond, r, c, v[q]))
    return rows


def dump_sym(p):
    from engine import symh5, sympd
    symh5.reset()
    sc = symcooler()
    import symcooler.cli.dump as D
    n, K, upper = p["n"], p["K"], p["upper"]
    bins = concrete_bins([n], "even")
    b1, b2, v = sym_pixels(n, K, upper)
    path = scratch_file("c16.cool")
    build_cooler_sym(path, bins, b1, b2, {"count": v}, upper)
    fill_lower, join, one_ids, one_starts = (bool(sym_bool(k)) for k in ("fill_lower", "join", "one_based_ids", "one_based_starts"))
    use_range = p["range"]
    sympd.CSV_LOG.clear()
    out = scratch_file("c16.tsv")
    cols = tuple(p["columns"]) if p.get("columns") else None
    if cols and join:
        raise PathAbortNow()
    D.dump.callback(cool_uri=path, table="pixels", columns=cols, header=False, na_rep="", float_format="g",
                    range=RANGES[use_range][0], range2=RANGES[use_range][1], fill_lower=fill_lower, balanced=False,
                    join=join, annotate=None, one_based_ids=one_ids, one_based_starts=one_starts, chunksize=concretize(sym_int("chunksize", 1, K + 1)), out=out)
    frames = [f for f in sympd.CSV_LOG if len(f)]
    bbox = (0, n, 0, n) if not use_range else RANGES[use_range][2]
    exp = _expected_rows(bins, b1, b2, v, upper, fill_lower, join, one_ids, one_starts, bbox)
    want = [(r, c, x) for cond, r, c, x in exp if bool(cond)]
    got = []
    starts, ends = bins["start"].tolist(), bins["end"].tolist()
    for f in frames:
        names = list(f.columns)
        for t in range(len(f)):
            got.append({k: vals(f[k])[t] for k in names})
    cover("mirrored_rows", fill_lower and upper and len(want) > K)
    cover("one_based", one_ids and not join)
    if len(got) != len(want):
        prove(False, f"dump wrote {len(got)} rows, the options describe {len(want)}")
        return None
    if cols:
        prove(all(list(g) == list(cols) for g in got), f"--columns {cols} did not restrict the pixel output columns: {list(got[0]) if got else []}")
    # multiset comparison against an arbitrary probe row
    off_id = 1 if one_ids else 0
    off_st = 1 if one_starts else 0
    P = [sym_int(f"probe{i}") for i in range(3)]

    def key_expected(r, c, x):
        if join:
            return and_(_sel(starts, r) + off_st == P[0], _sel(starts, c) + off_st == P[1], x == P[2])
        return and_(r + off_id == P[0], c + off_id == P[1], x == P[2])

    def key_got(g):
        if join:
            return and_(g["start1"] == P[0], g["start2"] == P[1], g["count"] == P[2]) if "start1" in g else False
        return and_(g["bin1_id"] == P[0], g["bin2_id"] == P[1], g["count"] == P[2]) if "bin1_id" in g else False
    if not cols:
        prove(ssum([ite(key_got(g), 1, 0) for g in got]) == ssum([ite(key_expected(*w), 1, 0) for w in want]),
              "dumped rows differ from the records the options describe (an option had no effect or the wrong effect)")
        if join and got:
            prove(and_(*[g["end1"] - g["start1"] == 10 - off_st for g in got]), "joined end coordinates wrong")
    return [len(got)]


def dump_real(p, inputs):
    import pandas as pd
    import cooler.cli.dump as D
    n, K, upper = p["n"], p["K"], p["upper"]
    bins = concrete_bins([n], "even")
    b1, b2, v = pixels_from_inputs(inputs, K)
    path = scratch_file("c16.cool")
    build_cooler_real(path, bins, b1, b2, {"count": v}, upper)
    fill_lower, join, one_ids, one_starts = (bool(inputs[k]) for k in ("fill_lower", "join", "one_based_ids", "one_based_starts"))
    use_range = p["range"]
    out = scratch_file("c16.tsv")
    cols = tuple(p["columns"]) if p.get("columns") else None
    D.dump.callback(cool_uri=path, table="pixels", columns=cols, header=True, na_rep="", float_format="g",
                    range=RANGES[use_range][0], range2=RANGES[use_range][1], fill_lower=fill_lower, balanced=False,
                    join=join, annotate=None, one_based_ids=one_ids, one_based_starts=one_starts, chunksize=inputs["chunksize"], out=out)
    txt = open(out).read()
    df = pd.read_csv(io.StringIO(txt), sep="\t") if txt.strip() else pd.DataFrame()
    bbox = (0, n, 0, n) if not use_range else RANGES[use_range][2]
    exp = _expected_rows(bins, b1, b2, v, upper, fill_lower, join, one_ids, one_starts, bbox)
    want = [(r, c, x) for cond, r, c, x in exp if cond]
    if len(df) != len(want):
        raise OracleFailure(f"dump wrote {len(df)} rows, the options describe {len(want)}")
    if cols:
        if list(df.columns) != list(cols):
            raise OracleFailure(f"--columns {','.join(cols)} did not restrict the pixel output: header is {list(df.columns)}")
        return [len(df)]
    starts = bins["start"].tolist()
    off_id, off_st = (1 if one_ids else 0), (1 if one_starts else 0)
    if join:
        g = sorted(zip(df["start1"], df["start2"], df["count"])) if len(df) else []
        w = sorted((starts[r] + off_st, starts[c] + off_st, x) for r, c, x in want)
    else:
        g = sorted(zip(df["bin1_id"], df["bin2_id"], df["count"])) if len(df) else []
        w = sorted((r + off_id, c + off_id, x) for r, c, x in want)
    if [tuple(int(y) for y in x) for x in g] != w:
        raise OracleFailure(f"dump rows {g} differ from the records the options describe {w} "
                            f"(fill_lower={fill_lower}, join={join}, one_based_ids={one_ids}, one_based_starts={one_starts})")
    return [len(df)]


def _dump_cases(tier):
    out = []
    for n, K in ([(3, 2)] if tier == "quick" else [(3, 2), (3, 3), (4, 3)]):
        for upper in (True, False):
            for rng in (0, 1, 2, 3, 4):
                if tier == "quick" and not upper and rng not in (0, 3):
                    continue
                out.append(dict(n=n, K=K, upper=upper, range=rng))
    out.append(dict(n=3, K=2, upper=True, range=0, columns=["bin2_id", "count"]))
    return out


# ---------------------------------------------------------------------------
# loaders: the column a name is bound to == the column number the user gave (stub E6), and end to end on the real CLI
# ---------------------------------------------------------------------------
class _Stop(BaseException):
    def __init__(self, usecols, names):
        self.usecols, self.names = list(usecols), list(names)


def _intercept(mod):
    def read_csv(f, *a, usecols=None, names=None, **kw):
        raise _Stop(usecols, names)
    mod.pd = type("pdproxy", (), {"__getattr__": lambda self, k: getattr(__import__("engine.sympd", fromlist=["x"]), k), "read_csv": staticmethod(read_csv)})()


def _check_binding(usecols, names, requested):
    """E6: pandas binds the i-th name to the i-th smallest selected column"""
    order = sorted(range(len(usecols)), key=lambda i: concretize(usecols[i]) if isinstance(usecols[i], SInt) else usecols[i])
    bound = {names[i]: sorted(concretize(u) if isinstance(u, SInt) else u for u in usecols)[i] for i in range(len(names))}
    ok = all(bound[nm] == (concretize(requested[nm]) if isinstance(requested[nm], SInt) else requested[nm]) for nm in requested)
    return ok, bound


def _pairs_file(path, layout_cols, records, ncols):
    with open(path, "w") as f:
        for rec in records:
            row = ["."] * ncols
            for name, col in layout_cols.items():
                row[col] = str(rec[name])
            f.write("\t".join(row) + "\n")


def wiring_sym(p):
    from engine import symh5
    symh5.reset()
    symcooler()
    which = p["cmd"]
    ncols = 7
    sizes = os.path.join(scratch(), "c16.sizes")
    open(sizes, "w").write("c0\t40\nc1\t20\n")
    src = os.path.join(scratch(), "c16.in")
    open(src, "w").write("c0\t1\tc0\t2\n")
    if which == "pairs":
        import symcooler.cli.cload as M
        _intercept(M)
        names = ["chrom1", "pos1", "chrom2", "pos2", "x"]
        cols = [sym_int(f"col_{nm}", 1, p.get("maxcol", ncols)) for nm in names[:4]] + [sym_int("col_x", p.get("xmin", 1), ncols)]
        if p.get("fixed_pos"):
            for cvar, val in zip(cols[:4], p["fixed_pos"]):
                CTX.add(cvar.e == val)
        for i in range(len(cols)):
            for j in range(i):
                CTX.add(cols[i].e != cols[j].e)
        xcol = concretize(cols[4])
        requested = {nm: cols[i] - 1 for i, nm in enumerate(names)}
        cover("non_monotone", or_(*[cols[i] > cols[j] for i in range(4) for j in range(i + 1, 4)]))
        try:
            M.pairs.callback(bins=f"{sizes}:10", pairs_path=src, cool_path=scratch_file("c16w.cool"), metadata=None, assembly=None, zero_based=False,
                             comment_char="#", input_copy_status="unique", no_symmetric_upper=False, field=(f"x={xcol}",), chunksize=100, mergebuf=100,
                             temp_dir=None, no_delete_temp=False, max_merge=200, storage_options=None, append=False,
                             chrom1=cols[0], pos1=cols[1], chrom2=cols[2], pos2=cols[3])
        except _Stop as st:
            ok, bound = _check_binding(st.usecols, st.names, requested)
            prove(ok, f"a field is read from a different column than the one the user asked for (names {st.names}, usecols order ignored by the parser)")
            return ["bound"]
        prove(False, "loader did not reach the parser")
        return None
    import symcooler.cli.load as M
    _intercept(M)
    if p.get("move_ids"):
        # the two bin-id fields are moved as well: every placement of the four fields over the first `idcols` columns
        nc = p["idcols"]
        vs = [sym_int(f"col_{nm}", 1, nc) for nm in ("count", "x", "bin1_id", "bin2_id")]
        for i in range(4):
            for j in range(i):
                assume(vs[i] != vs[j])
        a, b, ci, cj = (concretize(x) for x in vs)
        idf = (f"bin1_id={ci}", f"bin2_id={cj}")
    else:
        c1, c2 = sym_int("col_count", 3, ncols), sym_int("col_x", 3, ncols)
        assume(c1 != c2)
        a, b = concretize(c1), concretize(c2)
        ci, cj, idf = 1, 2, ()
    cover("non_monotone", a > b)
    open(src, "w").write("\t".join(["0"] * ncols) + "\n")
    try:
        M.load.callback(bins_path=f"{sizes}:10", pixels_path=src, cool_path=scratch_file("c16w.cool"), format="coo", metadata=None, assembly=None,
                        field=(f"count={a}", f"x={b}") + idf, count_as_float=False, one_based=False, comment_char="#", input_copy_status="unique",
                        no_symmetric_upper=False, chunksize=100, mergebuf=None, max_merge=200, temp_dir=None, no_delete_temp=False,
                        storage_options=None, append=False)
    except _Stop as st:
        ok, bound = _check_binding(st.usecols, st.names, {"bin1_id": ci - 1, "bin2_id": cj - 1, "count": a - 1, "x": b - 1})
        prove(ok, f"a field is read from a different column than the one the user asked for (names {st.names})")
        return ["bound"]
    prove(False, "loader did not reach the parser")
    return None


def wiring_real(p, inputs):
    """end to end on the real command: a text file laid out as requested must give the matrix of the records"""
    import cooler
    which = p["cmd"]
    ncols = 7
    sizes = os.path.join(scratch(), "c16.sizes")
    open(sizes, "w").write("c0\t40\nc1\t20\n")
    src = os.path.join(scratch(), "c16.in")
    out = scratch_file("c16w.cool")
    if which == "pairs":
        import cooler.cli.cload as M
        names = ["chrom1", "pos1", "chrom2", "pos2", "x"]
        cols = {nm: inputs[f"col_{nm}"] - 1 for nm in names}
        recs = [dict(chrom1="c0", pos1=5, chrom2="c0", pos2=25, x=7), dict(chrom1="c0", pos1=6, chrom2="c1", pos2=12, x=2),
                dict(chrom1="c0", pos1=7, chrom2="c0", pos2=26, x=1)]
        _pairs_file(src, cols, recs, ncols)
        try:
            M.pairs.callback(bins=f"{sizes}:10", pairs_path=src, cool_path=out, metadata=None, assembly=None, zero_based=False,
                             comment_char="#", input_copy_status="unique", no_symmetric_upper=False, field=(f"x={cols['x'] + 1}",), chunksize=100, mergebuf=100,
                             temp_dir=None, no_delete_temp=False, max_merge=200, storage_options=None, append=False,
                             chrom1=cols["chrom1"] + 1, pos1=cols["pos1"] + 1, chrom2=cols["chrom2"] + 1, pos2=cols["pos2"] + 1)
        except Exception as e:  # noqa
            raise OracleFailure(f"cload pairs with fields at columns {cols} failed: {type(e).__name__}: {str(e)[:150]}")
        from .model import validity_real
        validity_real(out)   # text loading is one of C02's producers
        tab = cooler.Cooler(out).pixels()[:]
        if "x" not in tab.columns:
            raise OracleFailure(f"cload pairs --field x=...: the loaded cooler has no column 'x' (columns {list(tab.columns)})")
        got = sorted(zip(tab["bin1_id"], tab["bin2_id"], tab["count"], tab["x"]))
        want = [(0, 2, 2, 8), (0, 5, 1, 2)]
        if [tuple(int(y) for y in g) for g in got] != want:
            raise OracleFailure(f"cload pairs with fields at columns {cols}: pixels {got}, the records denote {want}")
        return ["bound"]
    import cooler.cli.load as M
    a, b = inputs["col_count"], inputs["col_x"]
    ci, cj = (inputs["col_bin1_id"], inputs["col_bin2_id"]) if p.get("move_ids") else (1, 2)
    idf = (f"bin1_id={ci}", f"bin2_id={cj}") if p.get("move_ids") else ()
    recs = [dict(bin1_id=0, bin2_id=2, count=5, x=9), dict(bin1_id=1, bin2_id=3, count=4, x=3)]
    _pairs_file(src, {"bin1_id": ci - 1, "bin2_id": cj - 1, "count": a - 1, "x": b - 1}, recs, ncols)   # unused columns hold text (".")
    try:
        M.load.callback(bins_path=f"{sizes}:10", pixels_path=src, cool_path=out, format="coo", metadata=None, assembly=None,
                        field=(f"count={a}", f"x={b}:dtype=int") + idf, count_as_float=False, one_based=False, comment_char="#", input_copy_status="unique",
                        no_symmetric_upper=False, chunksize=100, mergebuf=None, max_merge=200, temp_dir=None, no_delete_temp=False,
                        storage_options=None, append=False)
    except Exception as e:  # noqa
        raise OracleFailure(f"load with count at column {a}, x at column {b} failed: {type(e).__name__}: {str(e)[:150]}")
    from .model import validity_real
    validity_real(out)
    tab = cooler.Cooler(out).pixels()[:]
    if "x" not in tab.columns:
        raise OracleFailure(f"load --field x=...: the loaded cooler has no column 'x' (columns {list(tab.columns)})")
    got = [tuple(int(y) for y in g) for g in zip(tab["bin1_id"], tab["bin2_id"], tab["count"], tab["x"])]
    if got != [(0, 2, 5, 9), (1, 3, 4, 3)]:
        raise OracleFailure(f"load with count at column {a}, x at column {b}: pixels {got}, the file denotes [(0,2,5,9),(1,3,4,3)]")
    return ["bound"]


# ---------------------------------------------------------------------------
# dump -> load: a COO or bedGraph-2D dump loaded back with the same bin table reproduces the pixels
# ---------------------------------------------------------------------------
def _named_bins(names, layout, kind):
    bins = concrete_bins(layout, kind)
    bins["chrom"] = bins["chrom"].map({f"c{i}": nm for i, nm in enumerate(names)})
    return bins


def _bed(path, bins):
    with open(path, "w") as f:
        for c, s_, e in zip(bins["chrom"], bins["start"], bins["end"]):
            f.write(f"{c}\t{s_}\t{e}\n")
    return path


def dumpload_body(env, p):
    env.reset()
    co = env.cooler
    fmt, upper, K = p["fmt"], p["upper"], p["K"]
    layout = p["layout"]
    n = sum(layout)
    bins = _named_bins(p["names"], layout, p.get("kind", "fixed"))
    b1, b2, v = env_pixels(env, n, K, upper)
    src = scratch_file("c16dl.cool")
    env.build_cooler(src, bins, b1, b2, {"count": v}, upper)
    one_based = bool(env.bool("one_based"))
    cs1, cs2 = env.choice("dump_chunk", K + 1) + 1, env.choice("load_chunk", K + 1) + 1
    txt = scratch_file("c16dl.tsv")
    bed = _bed(os.path.join(scratch(), "c16dl.bed"), bins)
    out = scratch_file("c16dl_out.cool")
    env.cover("several_load_chunks", cs2 < K)
    D = env.mod("cli.dump")
    L = env.mod("cli.load")
    dump_kw = dict(cool_uri=src, table="pixels", columns=None, header=False, na_rep="", float_format="g", range=None, range2=None, fill_lower=False,
                   balanced=False, join=(fmt == "bg2"), annotate=None, one_based_ids=(one_based and fmt == "coo"),
                   one_based_starts=(one_based and fmt == "bg2"), chunksize=cs1, out=txt)
    load_kw = dict(bins_path=bed, pixels_path=txt, cool_path=out, format=fmt, metadata=None, assembly=None, field=(), count_as_float=False,
                   one_based=one_based, comment_char="#", input_copy_status="unique", no_symmetric_upper=not upper, chunksize=cs2, mergebuf=None,
                   max_merge=200, temp_dir=None, no_delete_temp=False, storage_options=None, append=False)
    if env.symbolic:
        from engine import sympd
        sympd.CSV_LOG.clear()
        D.dump.callback(**dump_kw)
        frames = [f for f in sympd.CSV_LOG if len(f)]
        dumped = sympd.concat(frames, ignore_index=True) if frames else None

        def read_csv(f, sep=None, usecols=None, names=None, dtype=None, comment=None, iterator=False, chunksize=None, **kw):
            # stub E6/E9: the text written by to_csv read back by read_csv is the same table; the i-th name is bound to the i-th
            # smallest selected column; chromosome names stay categorical codes over the known names
            if f != txt:
                return getattr(sympd, "read_csv")(f, sep=sep, usecols=usecols, names=names, dtype=dtype, comment=comment, **kw)
            if dumped is None:
                return iter([])
            cols = list(dumped.columns)
            sel = sorted(usecols)
            tab = sympd.DataFrame({nm: dumped[cols[c]]._col for nm, c in zip(names, sel)})
            return iter([tab.iloc[i:i + chunksize].reset_index(drop=True) for i in range(0, len(tab), chunksize)])
        real_pd = L.pd
        L.pd = type("pdproxy", (), {"__getattr__": lambda self, k: getattr(sympd, k), "read_csv": staticmethod(read_csv)})()
        try:
            L.load.callback(**load_kw)
        finally:
            L.pd = real_pd
    else:
        D.dump.callback(**dump_kw)
        L.load.callback(**load_kw)
    from .model import read_pixels_sym, read_pixels_real, validity_sym, validity_real
    if env.symbolic:
        for cond, msg in validity_sym(out):
            prove(cond, "loaded cooler: " + msg)
        pix, attrs = read_pixels_sym(out)
    else:
        validity_real(out)
        pix, attrs = read_pixels_real(out)
    g1, g2, gc = list(pix["bin1_id"]), list(pix["bin2_id"]), list(pix["count"])
    if len(g1) != K:
        env.fail(f"dump -> load gave {len(g1)} pixels, the cooler dumped has {K}")
        return None
    env.check(and_(*[and_(g1[q] == b1[q], g2[q] == b2[q], gc[q] == v[q]) for q in range(K)]),
              "a dump loaded back with the same bin table does not reproduce the pixels")
    return [g1, g2, gc]


dumpload_sym, dumpload_real = both(dumpload_body)


def _dumpload_cases(tier):
    out = []
    for fmt in ("coo", "bg2"):
        for upper in (True, False):
            out.append(dict(fmt=fmt, upper=upper, K=2, layout=[2, 1], names=["c0", "c1"]))
    # a genome whose chromosome names are all digits, bins given as a BED file
    out.append(dict(fmt="bg2", upper=True, K=1, layout=[2, 1], names=["1", "2"]))
    if tier != "quick":
        out.append(dict(fmt="bg2", upper=True, K=3, layout=[2, 2], names=["10", "9"], kind="variable"))
        out.append(dict(fmt="coo", upper=False, K=3, layout=[3], names=["c0"]))
    return out


# ---------------------------------------------------------------------------
# zoomify resolution-spec expansion
# ---------------------------------------------------------------------------
SPECS = ["b", "n", "4dn", "2b", "2n", "5n", "4B", "3N", "b,7", "10,20", "n,b"]


def spec_sym(p):
    from engine import symh5
    symh5.reset()
    sc = symcooler()
    import symcooler.cli.zoomify as Z
    import pandas as pd
    w = p["binsize"]
    # genome of nb full bins plus one partial bin of symbolic width: the genome length is symbolic
    nb = p["nbins"]
    last = sym_int("last", 1, w)
    from engine import sympd
    bins = sympd.DataFrame({"chrom": pd.Categorical(["c0"] * (nb + 1), categories=["c0"]), "start": SArr([k * w for k in range(nb + 1)], "int64"),
                            "end": SArr([(k + 1) * w for k in range(nb)] + [nb * w + last], "int64")})
    path = scratch_file("c16z.cool")
    build_cooler_sym(path, bins, [], [], {"count": []}, True)
    got = {}

    def rec(uris, outfile, resolutions, chunksize, **kw):
        got["res"] = list(resolutions)
    Z.zoomify_cooler = rec
    spec = SPECS[p["spec"]]
    L = nb * w + last
    try:
        Z.zoomify.callback(cool_uri=path, nproc=1, chunksize=100, resolutions=spec, balance=False, balance_args=None, field=(), legacy=False,
                           base_uri=(), out=scratch_file("c16z.mcool"))
    except ValueError as e:
        prove(False, f"resolution spec {spec!r} was refused: {e}")
        return ["raises", "ValueError"]
    res = got["res"]
    maxres = (L + 255) // 256
    exp = []
    for part in [s.strip().lower() for s in spec.split(",")]:
        if part in ("b", "n") or part == "4dn" or part[-1] in "bn":
            style = "binary" if part.endswith("b") else "nice"
            if part == "4dn":
                seq = [1000, 2000] + [x for x in _prog(5000, "nice") if bool(x <= maxres)]
            else:
                start = w if part in ("b", "n") else int(part[:-1])
                seq = [x for x in _prog(start, style) if bool(x <= maxres)]
            exp.extend(seq)
        else:
            exp.append(int(part))
    cover("clipped", len(res) > 0)
    if len(res) != len(exp):
        prove(False, f"spec {spec!r} expanded to {len(res)} resolutions, the documented progression has {len(exp)}")
        return None
    prove(and_(*[a == b for a, b in zip(res, exp)]), f"spec {spec!r} did not expand to the documented progression clipped to the maximum")
    return [concretize(x) if isinstance(x, SInt) else int(x) for x in res]


def _prog(start, style):
    if style == "binary":
        return [start * 2 ** i for i in range(14)]
    return sorted(start * m * 10 ** e for e in range(5) for m in (1, 2, 5))


def spec_real(p, inputs):
    import cooler
    import pandas as pd
    import cooler.cli.zoomify as Z
    w, nb = p["binsize"], p["nbins"]
    last = inputs["last"]
    bins = pd.DataFrame({"chrom": ["c0"] * (nb + 1), "start": [k * w for k in range(nb + 1)], "end": [(k + 1) * w for k in range(nb)] + [nb * w + last]})
    path = scratch_file("c16z.cool")
    build_cooler_real(path, bins, [], [], {"count": []}, True)
    got = {}
    orig = Z.zoomify_cooler
    Z.zoomify_cooler = lambda uris, outfile, resolutions, chunksize, **kw: got.update(res=list(resolutions))
    spec = SPECS[p["spec"]]
    try:
        Z.zoomify.callback(cool_uri=path, nproc=1, chunksize=100, resolutions=spec, balance=False, balance_args=None, field=(), legacy=False,
                           base_uri=(), out=scratch_file("c16z.mcool"))
    except ValueError as e:
        raise OracleFailure(f"cooler zoomify -r {spec} was refused: {e}")
    finally:
        Z.zoomify_cooler = orig
    L = nb * w + last
    maxres = (L + 255) // 256
    exp = []
    for part in [s.strip().lower() for s in spec.split(",")]:
        if part in ("b", "n") or part == "4dn" or part[-1] in "bn":
            style = "binary" if part.endswith("b") else "nice"
            if part == "4dn":
                exp += [1000, 2000] + [x for x in _prog(5000, "nice") if x <= maxres]
            else:
                start = w if part in ("b", "n") else int(part[:-1])
                exp += [x for x in _prog(start, style) if x <= maxres]
        else:
            exp.append(int(part))
    if [int(x) for x in got["res"]] != exp:
        raise OracleFailure(f"-r {spec}: expanded to {got['res']}, documented progression is {exp}")
    return [int(x) for x in got["res"]]


CHECKS = [
    Check("dump", _dump_cases, dump_sym, dump_real, labels=("mirrored_rows", "one_based"),
          doc="cooler dump's function body with solver-chosen flags (fill-lower, join, one-based ids/starts), regions and chunk size on symbolic pixels; "
              "to_csv replaced by a row recorder: rows == the records the options describe; --columns restricts the pixel columns",
          bounds=dict(quick="n=3 bins, K=2 pixels, both modes, no region / one region / two regions", thorough="n<=4, K<=3"),
          stubs=("E9 to_csv rendering replaced by a row recorder (real side parses the text back)", "E3", "E4"),
          outside=("CSV number formatting, gzip output", "--balanced / --annotate columns (C12, C14)"), timeout=2400, split_depth=6),
    Check("dump_load", _dumpload_cases, dumpload_sym, dumpload_real, labels=("several_load_chunks",),
          doc="cooler dump (COO / joined bedGraph-2D, zero- or one-based, any chunk size) followed by cooler load with the same bin table "
              "(given as a BED file) and any reader chunk size reproduces the pixel table; text rendering and parsing are stub E6/E9",
          bounds=dict(quick="3 bins / 2 chromosomes, K<=2 pixels, both storage modes, names c0/c1 and all-digit names", thorough="K=3, variable bins"),
          stubs=("E6/E9: to_csv followed by read_csv is the identity on the selected columns (i-th name bound to i-th smallest column); "
                 "the real text path runs on every explored path",), timeout=1500, split_depth=6),
    Check("field_wiring", lambda tier: ([dict(cmd="pairs", maxcol=5, xmin=6), dict(cmd="pairs", fixed_pos=[2, 3, 5, 6])] if tier == "quick" else [dict(cmd="pairs")]) + [dict(cmd="load"), dict(cmd="load", move_ids=True, idcols=5 if tier == "quick" else 7)], wiring_sym, wiring_real, labels=("non_monotone",),
          doc="cload pairs / load run up to the parser call with symbolic field numbers: under E6 every name is bound to the column the user asked for; "
              "every explored layout is then run end to end through the real command on a text file laid out that way",
          bounds=dict(all="7 columns; positional fields and one value field at any distinct column numbers (pairs); two value fields at any distinct columns (load)"),
          stubs=("E6 pd.read_csv(usecols=U, names=N): U is a set, names are bound in file order",), timeout=2400, split_depth=3),
    Check("zoomify_spec", lambda tier: [dict(spec=i, binsize=b, nbins=nb) for i in range(len(SPECS)) for b, nb in ([(100, 300), (1000, 25)] if tier == "quick" else [(100, 300), (1000, 25), (1000, 700), (10, 5000), (100, 255), (4096, 31)])],
          spec_sym, spec_real, labels=("clipped",),
          doc="the resolution-spec loop of `cooler zoomify -r` (b, n, 4dn, <k>b, <k>n, upper-case, explicit lists, mixtures) with a symbolic genome length: "
              "== documented progression (ratio 2; 1-2-5) clipped to ceil(length/256)",
          bounds=dict(quick="bin size 100, genome length 30001..30100 (clip constant 118); bin size 1000, genome length 25001..26000 (clip 98..102 symbolic, "
                            "crossing a member of the 1-2-5 progression)", thorough="6 bin size / length windows"), timeout=1800),
]

MUTANTS = [
    dict(name="revert F7 fix (one-based flags need --join)", file="cli/dump.py", old="        if balanced or join or annotate or one_based_ids or one_based_starts:", new="        if balanced or join or annotate:", checks=["dump"]),
    dict(name="revert F7 fix (--columns ignored for pixels)", file="cli/dump.py", old="        if columns is not None:\n            chunks = (chunk[list(columns)] for chunk in chunks)\n", new="", checks=["dump"]),
    dict(name="fill-lower ignored", file="cli/dump.py", old='        if fill_lower and clr.storage_mode == "symmetric-upper":', new='        if False:', checks=["dump"]),
    dict(name="range2 ignored", file="cli/dump.py", old="            if range2 is not None:\n                j0, j1", new="            if False:\n                j0, j1", checks=["dump"]),
    dict(name="one-based starts shifts start2 only", file="cli/dump.py", old='            for col in ["start1", "start2"]:', new='            for col in ["start2"]:', checks=["dump"]),
    dict(name="revert F8 fix (pairs: names in option order)", file="cli/cload.py", old="    input_field_names = sorted(input_field_names, key=input_field_numbers.__getitem__)\n\n    reader = pd.read_csv(\n        f_in,\n        sep=\"\\t\",\n        usecols=[input_field_numbers[name] for name in input_field_names],\n        names=input_field_names,\n        dtype=input_field_dtypes,\n        iterator=True,",
         new="    reader = pd.read_csv(\n        f_in,\n        sep=\"\\t\",\n        usecols=[input_field_numbers[name] for name in input_field_names],\n        names=input_field_names,\n        dtype=input_field_dtypes,\n        iterator=True,", checks=["field_wiring"]),
    dict(name="revert F6 fix (<k>b spelling)", file="cli/zoomify.py", old='            elif res.endswith("b"):\n                res = int(res.split("b")[0])', new='            elif res.endswith("n"):\n                res = int(res.split("b")[0])', checks=["zoomify_spec"]),
    dict(name="binary progression clipped one step early", file="_reduce.py", old="        if n > stop:\n            break", new="        if n >= stop:\n            break", checks=["zoomify_spec"]),
]


# ---------------------------------------------------------------------------
# cooler zoomify --field: every named column gets exactly the dtype / aggregation written next to its own name
# ---------------------------------------------------------------------------
FIELD_FORMS = ["count", "count:dtype=float64", "x", "x:agg=max", "x:dtype=int64,agg=max", "y:agg=min", "y:dtype=float32", "y"]


def zfields_body(env, p):
    """`cooler zoomify --field ...` up to the call into zoomify_cooler: the columns handed over are the named ones, in the order given, and
    the dtype / aggregation of each is the one the user wrote for that column (nothing for a column named bare); without --field the count
    column with default settings. The set of --field arguments is solver-chosen (which of `count`, `x`, `y` are named, and in which form)."""
    import numpy as np
    env.reset()
    from .common import scratch_file, vals
    bins = concrete_bins([3], "even")
    path = scratch_file("c16f.cool")
    env.build_cooler(path, bins, [0], [1], {"count": [2], "x": [5], "y": [7]}, True, dtypes={"x": "int64", "y": "int64"})
    Z = env.mod("cli.zoomify")
    picks = []
    for nm, forms in (("count", [None, 0, 1]), ("x", [None, 2, 3, 4]), ("y", [None, 5, 6, 7])):
        k = env.choice(f"form_{nm}", len(forms))
        if forms[k] is not None:
            picks.append(FIELD_FORMS[forms[k]])
    if env.choice("reverse", 2):
        picks = picks[::-1]
    env.cover("count_not_named", bool(picks) and not any(f.split(":")[0] == "count" for f in picks))
    env.cover("mixed_properties", sum(":" in f for f in picks) >= 2)
    got = {}
    saved = Z.zoomify_cooler

    def rec(uris, outfile, resolutions, chunksize, **kw):
        got.update(kw)
    Z.zoomify_cooler = rec
    try:
        Z.zoomify.callback(cool_uri=path, nproc=1, chunksize=100, resolutions="20", balance=False, balance_args=None, field=tuple(picks), legacy=False,
                           base_uri=(), out=scratch_file("c16f.mcool"))
    finally:
        Z.zoomify_cooler = saved
    want_cols, want_dt, want_agg = [], {}, {}
    for f in picks:
        nm, _, props = f.partition(":")
        want_cols.append(nm)
        for kv in filter(None, props.split(",")):
            k, v = kv.split("=")
            (want_dt if k == "dtype" else want_agg)[nm] = v
    if not picks:
        want_cols = ["count"]
    cols = list(got.get("columns") or [])
    env.check(cols == want_cols, f"--field {picks}: columns handed to zoomify_cooler are {cols}, the user named {want_cols}")
    agg = {k: (v if isinstance(v, str) else getattr(v, "__name__", str(v))) for k, v in (got.get("agg") or {}).items()}
    dts = {k: str(np.dtype(v)) for k, v in (got.get("dtypes") or {}).items()}
    env.check(agg == want_agg, f"--field {picks}: aggregations {agg} are not the ones written next to each column {want_agg}")
    env.check(dts == want_dt, f"--field {picks}: dtypes {dts} are not the ones written next to each column {want_dt}")
    return [cols, sorted(agg.items()), sorted(dts.items())]


zfields_sym, zfields_real = both(zfields_body)

CHECKS.append(Check("zoomify_fields", lambda tier: [dict()], zfields_sym, zfields_real, labels=("count_not_named", "mixed_properties"),
                    doc="cooler zoomify --field with a solver-chosen set of field arguments (which columns, bare or with dtype / agg, either order): the "
                        "columns, dtypes and aggregations handed to zoomify_cooler are exactly the ones written for each column",
                    bounds=dict(forms="8 field spellings over the columns count, x, y; every subset with one spelling per column, both orders"),
                    stubs=("zoomify_cooler intercepted (its behaviour for given columns/dtypes/agg is C09 `zoomify` and C08 `coarsen`)",)))

MUTANTS += [
    dict(name="zoomify --field: aggregations paired with the columns in reverse", file="cli/zoomify.py", old="            agg = {col: f for col, f in zip(columns, agg) if f is not None}",
         new="            agg = {col: f for col, f in zip(columns[::-1], agg) if f is not None}", checks=["zoomify_fields"]),
    dict(name="zoomify --field: count always carried along", file="cli/zoomify.py", old="            columns = list(columns)\n", new="            columns = list(columns)\n            columns = columns if 'count' in columns else ['count'] + columns\n", checks=["zoomify_fields"]),
]
