"""C06 - unordered ingestion equals aggregating all records in memory."""
from __future__ import annotations

import numpy as np
import z3

from .common import *  # noqa: F401,F403
from .common import (Check, OracleFailure, SymEnv, RealEnv, both, sym_pixels, pixels_from_inputs, scratch_file, symcooler)
from .model import named_bins, tables_kept_sym, tables_kept_real, concrete_bins, read_pixels_sym, read_pixels_real, validity_sym, validity_real


def unordered_sym(p):
    from engine import symh5
    symh5.reset()
    sc = symcooler()
    layout, Ks, upper = p["layout"], p["Ks"], p["upper"]
    n = sum(layout)
    bins = named_bins(layout, p["kind"], p.get("chrom_names"))
    tables = []
    for i, K in enumerate(Ks):
        b1, b2, v = sym_pixels(n, K, upper, prefix=f"t{i}_") if not p.get("in_chunk_dups") else _nonstrict(n, K, upper, f"t{i}_")
        tables.append((b1, b2, v))
    if p.get("in_chunk_dups"):
        cover("pixel_twice_in_one_chunk", or_(*[and_(b1[q] == b1[q - 1], b2[q] == b2[q - 1]) for b1, b2, v in tables for q in range(1, len(b1))]))
    R = sum(Ks)
    buf = sym_int("mergebuf", 1, R + 1)
    mm = sym_int("max_merge", 1, len(Ks) + 1)
    if p.get("two_pass_only"):
        # many chunks: only the recursive merge is of interest here, with a buffer that holds everything
        CTX.add(z3.And(mm.e < len(Ks), buf.e == R + 1))
    fl = p.get("float_counts")
    if fl:
        from engine.symcore import SReal
        tables = [(b1, b2, [SReal.of(x) / 4 for x in v]) for b1, b2, v in tables]   # quarter counts through dtypes={"count": float}
    given = tables
    extra = {}
    if p.get("in_chunk_dups"):
        extra["dupcheck"] = False    # a chunk may list a pixel more than once when the duplicate check is off: the records are summed like any others
    if p.get("ensure_sorted"):
        # "or sorting requested": records inside each chunk arrive in a solver-chosen order and ensure_sorted=True has to repair it
        import itertools
        given = []
        for i, (b1, b2, v) in enumerate(tables):
            perms = list(itertools.permutations(range(len(b1))))
            k = concretize(sym_int(f"perm{i}", 0, len(perms) - 1)) if len(perms) > 1 else 0
            given.append(tuple([col[j] for j in perms[k]] for col in (b1, b2, v)))
        cover("chunk_unsorted", any(list(g[0]) != list(t[0]) or list(g[1]) != list(t[1]) for g, t in zip(given, tables)))
        extra["ensure_sorted"] = True
    chunks = ({"bin1_id": SArr(b1, "int64"), "bin2_id": SArr(b2, "int64"), "count": SArr(v, "float64" if fl else "int32")} for b1, b2, v in given)
    if p.get("frames"):
        # chunks are data frames whose row labels are a permutation of 0..n-1 (what df.sample(frac=1) or df.iloc[perm] leaves behind)
        from engine import sympd
        chunks = (sympd.DataFrame(ch, index=np.arange(len(ch["bin1_id"]))[::-1].copy()) for ch in list(chunks))
    out = scratch_file("c06_out.cool")
    cover("two_pass", mm < len(Ks))
    cover("empty_chunk", any(K == 0 for K in Ks))
    cover("repeated_pixel", or_(*[and_(x == y, xx == yy) for i in range(len(tables)) for j in range(i)
                                  for x, xx in zip(tables[i][0], tables[i][1]) for y, yy in zip(tables[j][0], tables[j][1])]))
    sc.create_cooler(out, bins, chunks, ordered=False, symmetric_upper=upper, mergebuf=buf, max_merge=mm,
                     **({"dtypes": {"count": np.dtype("float64")}} if fl else {}), **extra)
    for cond, msg in validity_sym(out):
        prove(cond, "unordered output: " + msg)
    tables_kept_sym(out, bins, what="unordered output")
    pix, attrs = read_pixels_sym(out)
    o1, o2, oc = pix["bin1_id"], pix["bin2_id"], pix["count"]
    conds = []
    for t in range(len(o1)):
        conds.append(oc[t] == ssum([ite(and_(b1[q] == o1[t], b2[q] == o2[t]), v[q], 0) for b1, b2, v in tables for q in range(len(b1))]))
    prove(and_(*conds), "a pixel is not the sum of all records given for it (record dropped or double-counted)")
    conds = []
    for b1, b2, v in tables:
        for q in range(len(b1)):
            conds.append(or_(*[and_(o1[t] == b1[q], o2[t] == b2[q]) for t in range(len(o1))]))
    prove(and_(*conds), "an input record's pixel is missing from the output")
    return dict(pix=pix, sum=attrs["sum"])


def _nonstrict(n, K, upper, prefix):
    """K records sorted by (bin1, bin2), the same pixel may occur more than once"""
    b1 = [sym_int(f"{prefix}r{q}", 0, n - 1) for q in range(K)]
    b2 = [sym_int(f"{prefix}c{q}", 0, n - 1) for q in range(K)]
    v = [sym_int(f"{prefix}v{q}", 1, 9) for q in range(K)]
    for q in range(K):
        if upper:
            CTX.add(b1[q].e <= b2[q].e)
        if q:
            CTX.add(z3.Or(b1[q - 1].e < b1[q].e, z3.And(b1[q - 1].e == b1[q].e, b2[q - 1].e <= b2[q].e)))
    return b1, b2, v


def unordered_real(p, inputs):
    import cooler
    layout, Ks, upper = p["layout"], p["Ks"], p["upper"]
    bins = named_bins(layout, p["kind"], p.get("chrom_names"))
    tables = [pixels_from_inputs(inputs, K, prefix=f"t{i}_") for i, K in enumerate(Ks)]
    fl = p.get("float_counts")
    if fl:
        tables = [(b1, b2, [x / 4 for x in v]) for b1, b2, v in tables]
    given = tables
    extra = {}
    if p.get("in_chunk_dups"):
        extra["dupcheck"] = False
    if p.get("ensure_sorted"):
        import itertools
        given = []
        for i, (b1, b2, v) in enumerate(tables):
            perms = list(itertools.permutations(range(len(b1))))
            k = inputs[f"perm{i}"] if len(perms) > 1 else 0
            given.append(tuple([col[j] for j in perms[k]] for col in (b1, b2, v)))
        extra["ensure_sorted"] = True
    chunks = ({"bin1_id": np.array(b1, dtype=np.int64), "bin2_id": np.array(b2, dtype=np.int64), "count": np.array(v, dtype=np.float64 if fl else np.int32)}
              for b1, b2, v in given)
    if p.get("frames"):
        import pandas as pd
        chunks = (pd.DataFrame(ch, index=np.arange(len(ch["bin1_id"]))[::-1].copy()) for ch in list(chunks))
    out = scratch_file("c06_out.cool")
    import os
    before = set(os.listdir(os.path.dirname(out)))
    cooler.create_cooler(out, bins, chunks, ordered=False, symmetric_upper=upper, mergebuf=inputs["mergebuf"], max_merge=inputs["max_merge"],
                         **({"dtypes": {"count": np.dtype("float64")}} if fl else {}), **extra)
    validity_real(out)
    tables_kept_real(out, bins)
    exp = {}
    for b1, b2, v in tables:
        for r, c, x in zip(b1, b2, v):
            exp[(r, c)] = exp.get((r, c), 0) + x
    pix, attrs = read_pixels_real(out)
    got = dict(zip(zip(pix["bin1_id"], pix["bin2_id"]), pix["count"]))
    if got != exp or len(pix["bin1_id"]) != len(exp):
        raise OracleFailure(f"unordered ingestion gave {got}, in-memory aggregation gives {exp}")
    return dict(pix=pix, sum=attrs["sum"])


def _cases(tier):
    out = []
    if tier == "quick":
        specs = [((2,), "fixed", (1, 1)), ((2,), "fixed", (2, 0, 1)), ((2, 1), "variable", (1, 1, 1)), ((2,), "fixed", (1, 1, 1, 1))]
    else:
        specs = [((2,), "fixed", (1, 1)), ((2,), "fixed", (2, 0, 1)), ((2, 1), "variable", (1, 1, 1)), ((2,), "fixed", (1, 1, 1, 1)),
                 ((3,), "even", (2, 2)), ((2, 1), "fixed", (2, 1, 2)), ((2,), "fixed", (1, 0, 1, 1, 1)), ((2, 2), "variable", (3, 2))]
    for layout, kind, Ks in specs:
        for upper in (True, False):
            if not upper and len(Ks) > 3:
                continue
            out.append(dict(layout=list(layout), kind=kind, Ks=list(Ks), upper=upper))
    # the duplicate check switched off and a pixel listed twice inside one chunk: summed like records from different chunks
    out.append(dict(layout=[2], kind="fixed", Ks=[2, 1], upper=True, in_chunk_dups=True))
    # a user dtype for the value column (float with fractional values) must survive both merge passes
    out.append(dict(layout=[2], kind="fixed", Ks=[1, 1, 1], upper=True, float_counts=True))
    out.append(dict(layout=[1, 2], kind="variable", Ks=[1, 1, 1], upper=True, chrom_names=["chr2", "chr10"]))
    # chunk counts that are not a multiple of their integer square root: the two-pass grouping must still cover the last chunks
    out.append(dict(layout=[2], kind="fixed", Ks=[1, 1, 1, 1, 1], upper=True, two_pass_only=True))
    if tier != "quick":
        out.append(dict(layout=[2], kind="fixed", Ks=[1, 0, 1, 1, 1, 1, 1], upper=True, two_pass_only=True))
    # "or sorting requested": chunks in arbitrary internal order with ensure_sorted=True, as dicts and as frames with permuted labels
    out.append(dict(layout=[2], kind="fixed", Ks=[2, 2], upper=True, ensure_sorted=True))
    out.append(dict(layout=[2], kind="fixed", Ks=[3, 1], upper=True, ensure_sorted=True, frames=True))
    if tier != "quick":
        out.append(dict(layout=[2, 1], kind="variable", Ks=[3, 2], upper=False, ensure_sorted=True, frames=True))
    return out


# ---------------------------------------------------------------------------
# merge_breakpoints: the row-id partition bounded by the buffer size
# ---------------------------------------------------------------------------
def breakpoints_body(env, p):
    red = env.mod("_reduce")
    n, k, maxrow = p["n"], p["k"], p["maxrow"]
    idxs = []
    for t in range(k):
        cnt = [env.int(f"n{t}_{r}", 0, maxrow) for r in range(n)]
        off = [0]
        for c in cnt:
            off.append(off[-1] + c)
        idxs.append(env.array(off, "int64"))
    buf = env.int("bufsize", 1, k * n * maxrow + 1)
    total = idxs[0][n]
    for t in range(1, k):
        total = total + idxs[t][n]
    part, cum = red.merge_breakpoints(idxs, buf)
    part, cum = list(part), list(cum)
    env.cover("oversized_row", or_(*[ssum([idxs[t][r + 1] - idxs[t][r] for t in range(k)]) > buf for r in range(n)]))
    env.cover("several_epochs", len(part) > 2)
    conds = [part[0] == 0, cum[0] == 0, cum[-1] == total, part[-1] <= n]
    for a, b in zip(part[:-1], part[1:]):
        conds.append(a < b)
    for q, pq in enumerate(part):
        conds.append(cum[q] == ssum([idxs[t][pq] for t in range(k)]))
    env.check(and_(*conds), "merge_breakpoints: partition is not 0 = p0 < p1 < ... with cumulative counts ending at the total")
    # no epoch needlessly exceeds the buffer: an epoch spanning more than one row holds at most bufsize records
    conds = []
    for q in range(len(part) - 1):
        if part[q + 1] - part[q] > 1:
            conds.append(cum[q + 1] - cum[q] <= buf)
    env.check(and_(*conds), "an epoch of several rows exceeds the merge buffer")
    return [part, cum]


bp_sym, bp_real = both(breakpoints_body)


CHECKS = [
    Check("unordered", _cases, unordered_sym, unordered_real, labels=("two_pass", "empty_chunk", "repeated_pixel", "pixel_twice_in_one_chunk", "chunk_unsorted"),
          doc="create_cooler(ordered=False): chunks in arbitrary order, symbolic merge buffer and fan-in (one- and two-pass merge) "
              "== per-pixel sum of all records; output schema-valid",
          bounds=dict(quick="<=4 chunks, <=2 records each, n<=3 bins, mergebuf 1..R+1, max_merge 1..m+1", thorough="<=5 chunks, <=3 records each, n<=4"),
          stubs=("E3 in-memory h5py model", "E4 pandas models", "E8 tempfile.NamedTemporaryFile: real temporary files as markers"),
          outside=("no temporary file outlives the run (interpreter finalisation)",), timeout=3400, split_depth=9),
    Check("breakpoints", lambda tier: [dict(n=n, k=k, maxrow=2) for n, k in ([(2, 2), (3, 2)] if tier == "quick" else [(2, 2), (3, 2), (3, 3), (4, 2)])],
          bp_sym, bp_real, labels=("oversized_row", "several_epochs"),
          doc="merge_breakpoints on symbolic offset indexes and buffer size (stdlib bisect driving symbolic comparisons)",
          bounds=dict(quick="<=3 rows, 2 tables, <=2 records per row and table", thorough="<=4 rows, <=3 tables")),
]

MUTANTS = [
    dict(name="revert F9 fix (two-pass edges)", file="create/_create.py", old="edges = np.linspace(0, n, int(np.sqrt(n)) + 1, dtype=int)",
         new="edges = np.linspace(0, n, int(np.sqrt(n)), dtype=int)", checks=["unordered"]),
    dict(name="two-pass: last group dropped", file="create/_create.py", old="for lo, hi in zip(edges[:-1], edges[1:]):", new="for lo, hi in zip(edges[:-2], edges[1:-1]):", checks=["unordered"]),
    dict(name="final merge uses first-pass uris", file="create/_create.py", old="        final_uris = uris2\n", new="        final_uris = uris[:1]\n", checks=["unordered"]),
    dict(name="breakpoints: oversize step missing", file="_reduce.py", old="        if hi == lo:\n", new="        if False:\n", checks=["breakpoints"]),
    dict(name="breakpoints: bisect_left", file="_reduce.py", old="        hi = bisect_right(", new="        from bisect import bisect_left\n        hi = bisect_left(", checks=["breakpoints"]),
]
