"""C05 - each valid input record is counted once, in the pixel that contains it."""
from __future__ import annotations

import numpy as np

from .common import *  # noqa: F401,F403
from .common import Check, OracleFailure, SymEnv, RealEnv, both, known_active
from .model import sym_bins, bins_frame, real_widths

UNLISTED = "zz"


def _pd(env):
    if env.symbolic:
        from engine import sympd
        return sympd
    import pandas
    return pandas


def _table(env, p):
    layout = p["layout"]
    if env.symbolic:
        bins, widths = sym_bins(layout, p["wmax"], p["shape"], p.get("b"))
    else:
        widths = real_widths(env.inputs, layout, p["shape"], p.get("b"))
        bins = bins_frame(layout, widths, _pd(env))
    geom = []
    for ci, ws in enumerate(widths):
        pos = 0
        for w in ws:
            geom.append((ci, pos, pos + w))
            pos = pos + w
    lens = [ssum(ws) if env.symbolic else sum(ws) for ws in widths]
    return bins, widths, geom, lens


def _records(env, p, nch):
    """R records: chromosome codes in -1..nch-1 (-1 = a name the bin table does not list), free positions, a sided field"""
    from engine.sympd import SCat
    import pandas as pd
    R = p["R"]
    names = [f"c{i}" for i in range(nch)]
    c1 = [env.int(f"ch1_{q}", -1, nch - 1) for q in range(R)]
    c2 = [env.int(f"ch2_{q}", -1, nch - 1) for q in range(R)]
    pdt = p.get("pos_dtype", "int64")
    phi = None if pdt == "int64" else int(np.iinfo(pdt).max)
    p1 = [env.int(f"p1_{q}", -2, phi) for q in range(R)]
    p2 = [env.int(f"p2_{q}", -2, phi) for q in range(R)]
    x1 = [env.int(f"x1_{q}", 0, 3) for q in range(R)]
    x2 = [env.int(f"x2_{q}", 0, 3) for q in range(R)]
    rev = p.get("cat_order") == "reversed"
    if rev:
        # chromosome columns handed over as categoricals whose categories are the bin table's names in another order (what
        # astype("category") gives for chr1, chr10, chr2): names decide, never the codes of the caller's own categorical
        for c in c1 + c2:
            env.assume(c >= 0)
    if env.symbolic:
        from engine import sympd
        cats = names + [UNLISTED] if not rev else names[::-1]
        # the input spelling of the chromosome column: names, with the unlisted one coded last
        code = (lambda c: ite(c < 0, nch, c)) if not rev else (lambda c: nch - 1 - c)  # noqa
        chunk = sympd.DataFrame({
            "chrom1": SCat(SArr([code(c) for c in c1], "int64"), cats), "pos1": SArr(p1, pdt),
            "chrom2": SCat(SArr([code(c) for c in c2], "int64"), cats), "pos2": SArr(p2, pdt),
            "x1": SArr(x1, "int64"), "x2": SArr(x2, "int64")})
    else:
        nm = lambda c: UNLISTED if c < 0 else names[c]  # noqa
        chunk = pd.DataFrame({"chrom1": [nm(c) for c in c1], "pos1": np.array(p1, dtype=pdt),
                              "chrom2": [nm(c) for c in c2], "pos2": np.array(p2, dtype=pdt),
                              "x1": np.array(x1, dtype=np.int64), "x2": np.array(x2, dtype=np.int64)})
        if rev:
            for col in ("chrom1", "chrom2"):
                chunk[col] = pd.Categorical(chunk[col], categories=names[::-1])
    return chunk, c1, c2, p1, p2, x1, x2


def _binof(geom, c, a):
    """index of the bin of chromosome c containing position a (exactly one matches when a is in range)"""
    return ssum([ite(and_(c == cc, s <= a, a < e), k, 0) for k, (cc, s, e) in enumerate(geom)])


def _len_of(lens, c):
    return ssum([ite(c == i, L, 0) for i, L in enumerate(lens)])


def records_body(env, p):
    ing = env.mod("create._ingest")
    cr = env.mod("create")
    bins, widths, geom, lens = _table(env, p)
    nch = len(p["layout"])
    if p.get("big_genome"):
        # a genome longer than 2^31 bp whose chromosomes each fit int32: positions handed over as int32 are legitimate
        env.assume(and_(lens[0] + lens[1] >= 2**31, *[L < 2**31 for L in lens]))
    chunk, c1, c2, p1, p2, x1, x2 = _records(env, p, nch)
    R = p["R"]
    one_based = bool(env.bool("one_based"))
    if p.get("big_genome"):
        env.cover("anchor_beyond_2G", or_(*[and_(c1[q] == 2, p1[q] >= 1) for q in range(R)]))
    action = p["tril"]
    ob = 1 if one_based else 0
    a1 = [x - ob for x in p1]
    a2 = [x - ob for x in p2]
    listed = [and_(c1[q] >= 0, c2[q] >= 0) for q in range(R)]
    bad = [and_(listed[q], or_(a1[q] < 0, a2[q] < 0, a1[q] >= _len_of(lens, c1[q]), a2[q] >= _len_of(lens, c2[q]))) for q in range(R)]
    tril = [or_(c1[q] > c2[q], and_(c1[q] == c2[q], a1[q] > a2[q])) for q in range(R)]
    any_bad = or_(*bad)
    any_tril = or_(*[and_(listed[q], tril[q]) for q in range(R)])
    at_len = or_(*[and_(listed[q], or_(a1[q] == _len_of(lens, c1[q]), a2[q] == _len_of(lens, c2[q]))) for q in range(R)])
    if known_active("F2"):
        env.assume(not_(at_len))  # known finding F2: position == length is accepted
    env.cover("pos_eq_length", at_len)
    env.cover("pos_beyond_length", or_(*[and_(listed[q], a1[q] > _len_of(lens, c1[q])) for q in range(R)]))
    env.cover("pos_last_base", or_(*[and_(listed[q], a1[q] == _len_of(lens, c1[q]) - 1) for q in range(R)]))
    env.cover("unlisted", or_(*[not_(l) for l in listed]))
    env.cover("lower_triangle", any_tril)
    fn = cr.sanitize_records(bins, decode_chroms=True, is_one_based=one_based, tril_action=action, chrom_field="chrom",
                             anchor_field="pos", sided_fields=("chrom", "pos", "x"), suffixes=("1", "2"), sort=p["sort"], validate=True)
    try:
        out = fn(chunk)
    except ing.BadInputError:
        env.check(or_(any_bad, and_(action == "raise", any_tril) if action == "raise" else False),
                  "records were rejected although every anchor lies inside its chromosome")
        return ["raises", "BadInputError"]
    env.check(not_(any_bad), "a record with an anchor outside its chromosome (or at position == length) was accepted "
                             "and assigned to some bin instead of being rejected")
    if action == "raise":
        env.check(not_(any_tril), "lower-triangle record accepted under tril_action='raise'")
    keep = [q for q in range(R) if bool(and_(listed[q], True if action != "drop" else not_(tril[q])))]
    b1o, b2o = list(out["bin1_id"].values), list(out["bin2_id"].values)
    if len(b1o) != len(keep):
        env.fail(f"{len(b1o)} records retained, expected {len(keep)} (unlisted chromosomes dropped, nothing else)")
        return None
    exp = []
    for q in keep:
        sw = and_(tril[q], action == "reflect") if action == "reflect" else False
        u1c, u1a = ite(sw, c2[q], c1[q]), ite(sw, a2[q], a1[q])
        u2c, u2a = ite(sw, c1[q], c2[q]), ite(sw, a1[q], a2[q])
        ux1, ux2 = ite(sw, x2[q], x1[q]), ite(sw, x1[q], x2[q])
        exp.append((_binof(geom, u1c, u1a), _binof(geom, u2c, u2a), ux1, ux2))
    xo1, xo2 = list(out["x1"].values), list(out["x2"].values)
    if p["sort"]:
        # multiset equality against an arbitrary probe (B1, B2, X1, X2)
        B1, B2, X1, X2 = (env.int(k) for k in ("pB1", "pB2", "pX1", "pX2")) if env.symbolic else (None,) * 4
        if env.symbolic:
            got = ssum([ite(and_(b1o[t] == B1, b2o[t] == B2, xo1[t] == X1, xo2[t] == X2), 1, 0) for t in range(len(keep))])
            want = ssum([ite(and_(e[0] == B1, e[1] == B2, e[2] == X1, e[3] == X2), 1, 0) for e in exp])
            env.check(got == want, "a retained record is not assigned to the bins containing its anchors (or sided fields not swapped with it)")
            env.check(and_(*[or_(b1o[t] < b1o[t + 1], and_(b1o[t] == b1o[t + 1], b2o[t] <= b2o[t + 1])) for t in range(len(keep) - 1)]),
                      "output is not sorted by (bin1, bin2)")
        else:
            if sorted(zip(b1o, b2o, xo1, xo2)) != sorted(exp):
                env.fail("a retained record is not assigned to the bins containing its anchors")
            if list(zip(b1o, b2o)) != sorted(zip(b1o, b2o)):
                env.fail("output is not sorted by (bin1, bin2)")
    else:
        env.check(and_(*[and_(b1o[t] == e[0], b2o[t] == e[1], xo1[t] == e[2], xo2[t] == e[3]) for t, e in enumerate(exp)]),
                  "a retained record is not assigned to the bins containing its anchors (or sided fields not swapped with it)")
    # aggregation: one count per retained record, in its own pixel
    agg = cr.aggregate_records(sort=True)(out)
    g1, g2, gc = list(agg["bin1_id"].values), list(agg["bin2_id"].values), list(agg["count"].values)
    env.check(ssum(gc) == len(keep), "aggregated counts do not sum to the number of retained records")
    env.check(and_(*[gc[t] == ssum([ite(and_(e[0] == g1[t], e[1] == g2[t]), 1, 0) for e in exp]) for t in range(len(g1))]),
              "a pixel's count differs from the number of records falling into it")
    return dict(bin1=sorted_obs(b1o, b2o, p["sort"]), n=len(keep), agg=[g1, g2, gc])


def sorted_obs(b1, b2, is_sorted):
    return [b1, b2]


records_sym, records_real = both(records_body)


def _rec_cases(tier):
    out = []
    tables = [dict(layout=[2], shape="fixed", b=2, wmax=2), dict(layout=[1, 2], shape="any", wmax=2),
              dict(layout=[2, 1], shape="fixed", b=3, wmax=3)]
    if tier != "quick":
        tables += [dict(layout=[2, 2], shape="any", wmax=3), dict(layout=[1, 1, 2], shape="fixed", b=2, wmax=2), dict(layout=[3], shape="any", wmax=2)]
    for t in tables:
        for action in ("reflect", "drop", "raise", None):
            for sort in (False, True):
                R = 1 if tier == "quick" and (action in ("raise", None) or sort) else 2
                if tier != "quick":
                    R = 2
                out.append(dict(t, tril=action, sort=sort, R=R))
    # positions in a narrow integer type on a genome longer than 2^31 bp (variable-width bins: absolute positions are computed)
    out.append(dict(layout=[1, 1, 1], shape="any", wmax=2**31 - 1, tril="reflect", sort=False, R=1, pos_dtype="int32", big_genome=True))
    # chromosome columns that are already categoricals, categories in another order than the bin table's chromosomes
    out.append(dict(layout=[1, 2], shape="any", wmax=2, tril="reflect", sort=False, R=1, cat_order="reversed"))
    out.append(dict(layout=[2, 1], shape="fixed", b=2, wmax=2, tril="drop", sort=True, R=1, cat_order="reversed"))
    return out


# ---------------------------------------------------------------------------
# sanitize_pixels: one-based shift, tril handling on pre-binned records
# ---------------------------------------------------------------------------
def pixels_body(env, p):
    cr = env.mod("create")
    ing = env.mod("create._ingest")
    pd = _pd(env)
    n, R, action = p["n"], p["R"], p["tril"]
    from .model import concrete_bins
    bins = concrete_bins([n], "even")
    if env.symbolic:
        bins = pd.DataFrame(bins)
    b1 = [env.int(f"b1_{q}", 0, n) for q in range(R)]
    b2 = [env.int(f"b2_{q}", 0, n) for q in range(R)]
    v = [env.int(f"v{q}", 1, 5) for q in range(R)]
    x1 = [env.int(f"x1_{q}", 0, 3) for q in range(R)]
    x2 = [env.int(f"x2_{q}", 0, 3) for q in range(R)]
    one_based = bool(env.bool("one_based"))
    ob = 1 if one_based else 0
    chunk = pd.DataFrame({"bin1_id": env.array(b1, "int64"), "bin2_id": env.array(b2, "int64"), "count": env.array(v, "int64"),
                          "x1": env.array(x1, "int64"), "x2": env.array(x2, "int64")})
    a1, a2 = [x - ob for x in b1], [x - ob for x in b2]
    tril = [a1[q] > a2[q] for q in range(R)]
    env.cover("lower_triangle", or_(*tril))
    fn = cr.sanitize_pixels(bins, is_one_based=one_based, tril_action=action, sided_fields=("x",), sort=p["sort"])
    try:
        out = fn(chunk)
    except ing.BadInputError:
        env.check(and_(action == "raise", or_(*tril)) if action == "raise" else False, "pixels rejected without a lower-triangle record")
        return ["raises", "BadInputError"]
    if action == "raise":
        env.check(not_(or_(*tril)), "lower-triangle pixel accepted under tril_action='raise'")
    keep = [q for q in range(R) if bool(True if action != "drop" else not_(tril[q]))]
    o1, o2, ov, ox1, ox2 = (list(out[k].values) for k in ("bin1_id", "bin2_id", "count", "x1", "x2"))
    if len(o1) != len(keep):
        env.fail(f"{len(o1)} pixels retained, expected {len(keep)}")
        return None
    exp = []
    for q in keep:
        sw = tril[q] if action == "reflect" else False
        exp.append((ite(sw, a2[q], a1[q]), ite(sw, a1[q], a2[q]), v[q], ite(sw, x2[q], x1[q]), ite(sw, x1[q], x2[q])))
    if p["sort"] and env.symbolic:
        P = [env.int(f"probe{i}") for i in range(5)]
        got = ssum([ite(and_(o1[t] == P[0], o2[t] == P[1], ov[t] == P[2], ox1[t] == P[3], ox2[t] == P[4]), 1, 0) for t in range(len(keep))])
        want = ssum([ite(and_(*[e[i] == P[i] for i in range(5)]), 1, 0) for e in exp])
        env.check(got == want, "sanitized pixels differ from the shifted / mirrored input records")
        env.check(and_(*[or_(o1[t] < o1[t + 1], and_(o1[t] == o1[t + 1], o2[t] <= o2[t + 1])) for t in range(len(keep) - 1)]), "output not sorted")
    elif p["sort"]:
        if sorted(zip(o1, o2, ov, ox1, ox2)) != sorted(exp) or list(zip(o1, o2)) != sorted(zip(o1, o2)):
            env.fail("sanitized pixels differ from the shifted / mirrored input records")
    else:
        env.check(and_(*[and_(o1[t] == e[0], o2[t] == e[1], ov[t] == e[2], ox1[t] == e[3], ox2[t] == e[4]) for t, e in enumerate(exp)]),
                  "sanitized pixels differ from the shifted / mirrored input records")
    return [o1, o2, ov]


pixels_sym, pixels_real = both(pixels_body)


def _pix_cases(tier):
    out = []
    for action in ("reflect", "drop", "raise", None):
        for sort in (False, True):
            out.append(dict(n=3, R=2 if tier == "quick" else 3, tril=action, sort=sort))
    return out


CHECKS = [
    Check("records", _rec_cases, records_sym, records_real, labels=("pos_beyond_length", "pos_last_base", "unlisted", "lower_triangle", "anchor_beyond_2G"),
          doc="sanitize_records + aggregate_records on symbolic records over bin tables with symbolic widths (fixed and variable)",
          bounds=dict(quick="R<=2 records, <=2 chromosomes, <=3 bins, positions unbounded from -2", thorough="R=2, <=3 chromosomes, <=4 bins"),
          stubs=("E4 pandas models (categorical recoding, masked assignment, groupby)",),
          outside=("tabix/pairix fetch (C library index semantics)", "text parsing"), timeout=1500),
    Check("pixels", _pix_cases, pixels_sym, pixels_real, labels=("lower_triangle",),
          doc="sanitize_pixels: one-based shift by exactly one, reflect/drop/raise, sided fields swapped with the record",
          bounds=dict(quick="R=2 records", thorough="R=3")),
]

MUTANTS = [
    dict(name="bounds check off by one more (pos == length+1 accepted)", file="create/_ingest.py",
         old="is_excess = (anchor1 > chromsizes1) | (anchor2 > chromsizes2)", new="is_excess = (anchor1 > chromsizes1 + 1) | (anchor2 > chromsizes2 + 1)", checks=["records"]),
    dict(name="bounds check on first anchor only", file="create/_ingest.py",
         old="is_excess = (anchor1 > chromsizes1) | (anchor2 > chromsizes2)", new="is_excess = (anchor1 > chromsizes1)", checks=["records"]),
    dict(name="negative check dropped", file="create/_ingest.py", old="        if np.any(is_neg):\n            err = chunk[is_neg]", new="        if False:\n            err = chunk[is_neg]", checks=["records"]),
    dict(name="one-based shift on first anchor only", file="create/_ingest.py", old="        anchor1 -= 1\n        anchor2 -= 1", new="        anchor1 -= 1", checks=["records"]),
    dict(name="tril test ignores chromosome order", file="create/_ingest.py", old="is_tril = (chrom1_ids > chrom2_ids) | (",
         new="is_tril = (chrom1_ids < -5) | (", checks=["records"]),
    dict(name="variable bins: searchsorted left", file="create/_ingest.py",
         old='                    start_abspos[lo:hi], chrom_abspos[cid1] + pos1, side="right"', new='                    start_abspos[lo:hi], chrom_abspos[cid1] + pos1, side="left"', checks=["records"]),
    dict(name="sided field not swapped", file="create/_ingest.py", old="                for field in sided_fields:\n                    (\n                        chunk.loc[is_tril, field + suffixes[0]],\n                        chunk.loc[is_tril, field + suffixes[1]],\n                    ) = (\n                        chunk.loc[is_tril, field + suffixes[1]],\n                        chunk.loc[is_tril, field + suffixes[0]],\n                    )\n            elif tril_action == \"drop\":\n                mask = ~is_tril",
         new="                pass\n            elif tril_action == \"drop\":\n                mask = ~is_tril", checks=["records"]),
    dict(name="sanitize_pixels: shift bin2 only", file="create/_ingest.py", old="        chunk[bin1_field] -= 1\n", new="", checks=["pixels"]),
    dict(name="sanitize_pixels: drop keeps tril", file="create/_ingest.py", old="                chunk = chunk[~is_tril]", new="                chunk = chunk[is_tril]", checks=["pixels"]),
]


# ---------------------------------------------------------------------------
# TabixAggregator: per-bin1 fetch and bin2 assignment (the index itself is a stub with the documented fetch contract)
# ---------------------------------------------------------------------------
def tabix_sym(p):
    from engine import symh5, sympysam
    symh5.reset()
    sc = symcooler_()
    from symcooler.create import TabixAggregator
    env = SymEnv()
    bins, widths, geom, lens = _table(env, p)
    nch = len(p["layout"])
    names = [f"c{i}" for i in range(nch)]
    R = p["R"]
    one_based = bool(sym_bool("one_based"))
    ob = 1 if one_based else 0
    recs, zs = [], []
    for q in range(R):
        c1 = concretize(sym_int(f"ch1_{q}", 0, nch - 1))
        c2 = concretize(sym_int(f"ch2_{q}", c1, nch - 1))
        z1 = sym_int(f"z1_{q}", 0)
        z2 = sym_int(f"z2_{q}", 0)
        assume(and_(z1 < lens[c1], z2 < lens[c2], or_(c1 < c2, z1 <= z2)))
        zs.append((c1, z1, c2, z2))
        recs.append((names[c1], z1 + ob, "x", names[c2], z2 + ob))
    # file order: sorted by (chrom1, pos1) as tabix requires
    for a, b in zip(zs[:-1], zs[1:]):
        assume(or_(a[0] < b[0], and_(a[0] == b[0], a[1] <= b[1])) if a[0] <= b[0] else False)
    path = "/virtual/pairs.gz"
    sympysam.FILES.clear()
    sympysam.FILES[path] = dict(records=recs, contigs=names, pos_col=1, one_based=one_based)
    from .model import sym_bins as _sb
    cs = sc.util.get_chromsizes(bins)
    agg = TabixAggregator(path, cs, bins, n_chunks=concretize(sym_int("n_chunks", 1, 2)), is_one_based=one_based, C2=3, P2=4)
    out = []
    for chunk in agg:
        out.extend(zip(list(chunk["bin1_id"]), list(chunk["bin2_id"]), list(chunk["count"])))
    cover("on_bin_start", or_(*[or_(*[and_(z2 == s, c2 == cc) for cc, s, e in geom if s is not 0]) for c1, z1, c2, z2 in zs]))
    exp = [(_binof(geom, c1, z1), _binof(geom, c2, z2)) for c1, z1, c2, z2 in zs]
    prove(ssum([x[2] for x in out]) == R, "the tabix loader does not count every record exactly once")
    prove(and_(*[x[2] == ssum([ite(and_(e[0] == x[0], e[1] == x[1]), 1, 0) for e in exp]) for x in out]),
          "a record is not counted in the pixel formed by the bins containing its anchors (tabix loader)")
    prove(and_(*[or_(*[and_(e[0] == x[0], e[1] == x[1]) for x in out]) for e in exp]), "a record's pixel is missing (tabix loader)")
    return sorted((concretize(a) if isinstance(a, SInt) else int(a), concretize(b) if isinstance(b, SInt) else int(b),
                   concretize(c) if isinstance(c, SInt) else int(c)) for a, b, c in out)


def symcooler_():
    from .common import symcooler
    return symcooler()


def tabix_real(p, inputs):
    import os
    import pandas as pd
    import pysam
    import cooler
    from cooler.create import TabixAggregator
    from .common import scratch
    layout = p["layout"]
    nch = len(layout)
    names = [f"c{i}" for i in range(nch)]
    widths = real_widths(inputs, layout, p["shape"], p.get("b"))
    bins = bins_frame(layout, widths, pd)
    one_based = bool(inputs["one_based"])
    ob = 1 if one_based else 0
    R = p["R"]
    zs = [(inputs[f"ch1_{q}"], inputs[f"z1_{q}"], inputs[f"ch2_{q}"], inputs[f"z2_{q}"]) for q in range(R)]
    d = scratch()
    txt = os.path.join(d, "pairs.txt")
    for f in (txt, txt + ".gz", txt + ".gz.tbi"):
        if os.path.exists(f):
            os.remove(f)
    with open(txt, "w") as f:
        for c1, z1, c2, z2 in zs:
            f.write(f"{names[c1]}\t{z1 + ob}\tx\t{names[c2]}\t{z2 + ob}\n")
    pysam.tabix_compress(txt, txt + ".gz", force=True)
    pysam.tabix_index(txt + ".gz", seq_col=0, start_col=1, end_col=1, zerobased=not one_based, force=True)
    cs = cooler.util.get_chromsizes(bins)
    import warnings
    with warnings.catch_warnings():
        warnings.simplefilter("ignore")
        agg = TabixAggregator(txt + ".gz", cs, bins, n_chunks=inputs["n_chunks"], is_one_based=one_based, C2=3, P2=4)
        out = []
        for chunk in agg:
            out.extend(zip(chunk["bin1_id"].tolist(), chunk["bin2_id"].tolist(), chunk["count"].tolist()))
    geom = []
    for ci, ws in enumerate(widths):
        pos = 0
        for w in ws:
            geom.append((ci, pos, pos + w))
            pos += w
    binof = lambda c, z: [k for k, (cc, s, e) in enumerate(geom) if cc == c and s <= z < e][0]  # noqa
    exp = {}
    for c1, z1, c2, z2 in zs:
        k = (binof(c1, z1), binof(c2, z2))
        exp[k] = exp.get(k, 0) + 1
    got = {(int(a), int(b)): int(c) for a, b, c in out}
    if got != exp or len(out) != len(exp):
        raise OracleFailure(f"tabix loader binned the records {zs} (zero-based) into {sorted(out)}, they fall into {exp}")
    return sorted((int(a), int(b), int(c)) for a, b, c in out)


CHECKS.append(
    Check("tabix", lambda tier: [dict(layout=[2], shape="any", wmax=2, R=1), dict(layout=[1, 2], shape="any", wmax=2, R=2), dict(layout=[2, 1], shape="fixed", b=2, wmax=2, R=2)]
          + ([dict(layout=[2, 2], shape="any", wmax=3, R=2), dict(layout=[3], shape="fixed", b=3, wmax=3, R=3)] if tier != "quick" else []),
          tabix_sym, tabix_real, labels=("on_bin_start",),
          doc="TabixAggregator.__iter__/aggregate/balanced_partition on symbolic sorted upper-triangle records over bin tables with symbolic widths; "
              "the tabix index is a stub with the documented point-feature fetch contract; the real side builds and indexes a real file with pysam",
          bounds=dict(quick="R<=2 records, <=2 chromosomes, <=3 bins, widths 1..2, 1-2 partitions, zero- and one-based", thorough="R<=3, <=4 bins"),
          stubs=("pysam.TabixFile.fetch(chrom, s, e): records on chrom whose zero-based first position is in [s, e), in file order",), timeout=1800, split_depth=6))
