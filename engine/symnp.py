"""Hybrid numpy shim: the module cooler sees as `numpy` when loaded as `symcooler`.

Every entry point first asks whether any argument holds a symbolic value. If not,
the real numpy function runs. Only operations on symbolic data use the models below.
Anything not overridden falls through to real numpy (dtype objects, constants, ...).
"""
from __future__ import annotations

import os
import sys

import builtins
import math

import numpy as _np
import z3

from .symcore import (CTX, Inconclusive, SBool, SInt, SReal, _e, _ei, _eb, and_, concretize,
                      fresh_int, is_sym, ite, not_, or_, ssum)

_b_any, _b_all, _b_sum, _b_abs, _b_min, _b_max = (builtins.any, builtins.all, builtins.sum,
                                                  builtins.abs, builtins.min, builtins.max)


def __getattr__(name):
    attr = getattr(_np, name)
    if callable(attr) and not isinstance(attr, type) and not isinstance(attr, _np.ufunc):
        def f(*a, **kw):
            return _wrap(attr(*a, **kw))
        f.__name__ = name
        return f
    return attr


class CArr(_np.ndarray):
    """Concrete ndarray as seen by cooler code inside a symbolic run: identical to ndarray except that
    indexing with a symbolic index / mask is routed to the symbolic array model instead of failing."""

    def __getitem__(self, k):
        if _symindex(k):
            return _A(_np.asarray(self))[k]
        return super().__getitem__(k)

    def __setitem__(self, k, v):
        if _symindex(k) or _sym(v):
            raise Inconclusive("symbolic store into a concrete ndarray (array should have been created by the shim)")
        return super().__setitem__(k, v)


def _symindex(k):
    if isinstance(k, tuple):
        return _b_any(_symindex(x) for x in k)
    if isinstance(k, slice):
        return False  # slice bounds concretize through __index__
    if isinstance(k, (SArr, SBool)):
        return True
    if isinstance(k, SInt):
        return True
    if isinstance(k, list):
        return _b_any(is_sym(x) for x in k)
    return hasattr(k, "__sarr__")


def _wrap(x):
    if type(x) is _np.ndarray:
        return x.view(CArr)
    if isinstance(x, tuple):
        return tuple(_wrap(y) for y in x)
    if isinstance(x, list):
        return [_wrap(y) for y in x]
    return x


# ---------------------------------------------------------------------------
# symbolic array
# ---------------------------------------------------------------------------
def _dt(x):
    if x is None:
        return None
    if isinstance(x, type) and x.__module__.endswith("symbuiltins"):
        x = builtins.int if x.__name__ == "int_" else builtins.float
    try:
        return _wrap(_np.dtype(x))
    except TypeError:
        return _wrap(_np.dtype(object))


def _elem_dtype(x):
    if isinstance(x, SArr):
        return x.dtype
    if isinstance(x, _np.ndarray):
        return x.dtype
    if isinstance(x, (SBool, bool, _np.bool_)):
        return _wrap(_np.dtype(bool))
    if isinstance(x, (SInt, builtins.int)):
        return _wrap(_np.dtype("int64"))
    if isinstance(x, (SReal, builtins.float)):
        return _wrap(_np.dtype("float64"))
    if isinstance(x, _np.generic):
        return x.dtype
    return _wrap(_np.dtype(object))


def _result_dtype(a, b, op):
    if op in ("lt", "le", "gt", "ge", "eq", "ne"):
        return _wrap(_np.dtype(bool))
    da, db = _elem_dtype(a), _elem_dtype(b)
    if op == "truediv":
        return _wrap(_np.dtype("float64"))
    try:
        # python scalars are weak
        if not isinstance(a, (SArr, _np.ndarray)) and isinstance(b, (SArr, _np.ndarray)):
            if da.kind in "ib" and db.kind in "iuf":
                return db
            if da.kind == "f" and db.kind == "f":
                return db
        if not isinstance(b, (SArr, _np.ndarray)) and isinstance(a, (SArr, _np.ndarray)):
            if db.kind in "ib" and da.kind in "iuf":
                return da
            if db.kind == "f" and da.kind == "f":
                return da
        return _wrap(_np.result_type(da, db))
    except TypeError:
        return _wrap(_np.dtype(object))


def _wrap_narrow(its, dt, op):
    """numpy integer arithmetic in a type narrower than 64 bits wraps modulo 2^k (64-bit words are modelled as mathematical
    integers: the bounded inputs of the harnesses cannot reach 2^63)"""
    try:
        if op not in ("add", "sub", "mul") or dt.kind not in "iu" or dt.itemsize >= 8:
            return its
    except AttributeError:
        return its
    info = _np.iinfo(dt)
    lo, span = builtins.int(info.min), builtins.int(info.max) - builtins.int(info.min) + 1
    out = []
    for x in its:
        if isinstance(x, SInt):
            out.append(((x - lo) % span) + lo)
        elif isinstance(x, (builtins.int, _np.integer)) and not isinstance(x, (bool, _np.bool_)):
            out.append(((builtins.int(x) - lo) % span) + lo)
        else:
            out.append(x)
    return out


def _tolist(x):
    """flat python list of elements + shape for any array-like"""
    if isinstance(x, SArr):
        return list(x.items), x.shape
    if isinstance(x, _np.ndarray):
        return x.ravel().tolist(), x.shape
    if isinstance(x, (list, tuple)):
        out = []
        shape = (len(x),)
        for y in x:
            if isinstance(y, (SArr, _np.ndarray, list, tuple)):
                its, shp = _tolist(y)
                out.extend(its)
                shape = (len(x),) + tuple(shp)
            else:
                out.append(_py(y))
        return out, shape
    if hasattr(x, "__sarr__"):
        return _tolist(x.__sarr__())
    raise TypeError(f"not array-like: {type(x)}")


def _py(y):
    if isinstance(y, _np.generic):
        return y.item()
    return y


def _pyop(op):
    import operator
    return {
        "add": operator.add, "sub": operator.sub, "mul": operator.mul, "floordiv": operator.floordiv,
        "truediv": _truediv, "mod": operator.mod, "lt": operator.lt, "le": operator.le, "gt": operator.gt,
        "ge": operator.ge, "eq": _eq, "ne": _ne, "and": _and, "or": _or, "xor": operator.xor,
        "pow": operator.pow,
    }[op]


def _truediv(a, b):
    if isinstance(a, (SInt, SReal, SBool)) or isinstance(b, (SInt, SReal, SBool)):
        return SReal.of(a) / SReal.of(b)
    if b == 0:
        if a == 0 or (isinstance(a, float) and math.isnan(a)):
            return float("nan")
        return math.copysign(float("inf"), a)
    return a / b


def _eq(a, b):
    r = a == b
    if r is NotImplemented:
        return False
    return r


def _ne(a, b):
    r = a != b
    if r is NotImplemented:
        return True
    return r


def _and(a, b):
    if isinstance(a, SBool) or isinstance(b, SBool):
        return and_(a, b)
    if isinstance(a, bool) and isinstance(b, bool):
        return a and b
    return a & b


def _or(a, b):
    if isinstance(a, SBool) or isinstance(b, SBool):
        return or_(a, b)
    if isinstance(a, bool) and isinstance(b, bool):
        return a or b
    return a | b


class SArr:
    """list-backed n-d (n <= 2 in practice) array whose elements may be symbolic"""
    __array_ufunc__ = None
    __hash__ = None

    def __init__(self, items, dtype=None, shape=None):
        self._items = list(items)
        if dtype is None:
            dtype = _np.dtype("int64")
            for x in self._items:
                if isinstance(x, (SReal, builtins.float)):
                    dtype = _np.dtype("float64")
                    break
            else:
                if self._items and _b_all(isinstance(x, (SBool, bool)) for x in self._items):
                    dtype = _np.dtype(bool)
        self.dtype = _dt(dtype)
        self._shape = tuple(shape) if shape is not None else None

    # -- basic protocol ---------------------------------------------------
    @property
    def items(self):
        return self._items

    @property
    def shape(self):
        if self._shape is not None:
            return self._shape
        return (len(self.items),)

    @property
    def flags(self):
        """only `writeable` is modelled, and only as a settable flag (nothing in the code under test writes into an array it froze)"""
        fl = self.__dict__.get("_flags")
        if fl is None:
            import types
            fl = types.SimpleNamespace(writeable=True, c_contiguous=True, f_contiguous=self.ndim == 1, owndata=True)
            self.__dict__["_flags"] = fl
        return fl

    @property
    def ndim(self):
        return len(self.shape)

    @property
    def size(self):
        return len(self.items)

    def __len__(self):
        return self.shape[0]

    def __iter__(self):
        if self.ndim == 1:
            dt = self.dtype
            return iter([_scalar(x, dt) for x in self.items])
        ncol = self.shape[1]
        return iter([SArr(self.items[i * ncol:(i + 1) * ncol], self.dtype) for i in range(self.shape[0])])

    def tolist(self):
        if self.ndim == 1:
            return list(self.items)
        return [r.tolist() for r in self]

    def __symeval__(self, m):
        from .symcore import eval_value
        vals = [eval_value(m, x) for x in self.items]
        if self.ndim == 2:
            nc = self.shape[1]
            return [vals[i * nc:(i + 1) * nc] for i in range(self.shape[0])]
        return vals

    def copy(self):
        return SArr(list(self.items), self.dtype, self._shape)

    def astype(self, dtype, copy=True, casting="unsafe", **kw):
        dtype = _dt(dtype)
        if casting == "safe" and not _np.can_cast(self.dtype, dtype, "safe"):
            raise TypeError(f"Cannot cast array data from {self.dtype} to {dtype} according to the rule 'safe'")
        its = self.items
        if dtype.kind in "iu" and self.dtype.kind in "iu" and (dtype.itemsize < self.dtype.itemsize or dtype.kind != self.dtype.kind):
            # numpy integer casts wrap modulo 2^k
            info = _np.iinfo(dtype)
            span = int(info.max) - int(info.min) + 1
            its = [(((x - int(info.min)) % span) + int(info.min)) if isinstance(x, (SInt, builtins.int)) and not isinstance(x, bool) else x for x in its]
            return SArr(its, dtype, self._shape)
        if dtype.kind == "f" and self.dtype.kind in "iub":
            its = [SReal.of(x) if is_sym(x) else float(x) for x in its]
        elif dtype.kind in "iu" and self.dtype.kind == "f":
            its = [_trunc(x) for x in its]
        elif dtype.kind in "iu" and self.dtype.kind == "b":
            its = [ite(x, 1, 0) if isinstance(x, SBool) else builtins.int(x) for x in its]
        elif dtype.kind == "b" and self.dtype.kind in "iu":
            its = [(x != 0) for x in its]
        return SArr(its, dtype, self._shape)

    def view(self, *a, **k):
        return self

    def ravel(self):
        return SArr(self.items, self.dtype)

    flatten = ravel

    def reshape(self, *shape):
        if len(shape) == 1 and isinstance(shape[0], tuple):
            shape = shape[0]
        return SArr(self.items, self.dtype, shape)

    @property
    def T(self):
        if self.ndim == 1:
            return self
        r, c = self.shape
        return SArr([self.items[i * c + j] for j in range(c) for i in range(r)], self.dtype, (c, r))

    def __repr__(self):
        return f"<SArr {self.shape} {self.dtype}>"

    def __format__(self, spec):
        return repr(self)

    def __array__(self, dtype=None, copy=None):
        # reaching real numpy with symbolic data means a shim is missing
        if _b_any(is_sym(x) for x in self.items):
            raise Inconclusive("symbolic array reached real numpy (missing shim)")
        return _wrap(_np.array(self.items, dtype=dtype or self.dtype).reshape(self.shape))

    def concrete(self):
        return not _b_any(is_sym(x) for x in self.items)

    def __getattr__(self, name):
        if name.startswith("_"):
            raise AttributeError(name)
        if self.concrete():
            return getattr(self.to_real(), name)
        raise AttributeError(f"ndarray.{name} on a symbolic array is not modelled (shim)")

    def to_real(self):
        return _wrap(_np.array(self.items, dtype=self.dtype).reshape(self.shape))

    # -- element-wise -----------------------------------------------------
    def _bin(self, o, op, reflected=False):
        f = _pyop(op)
        if isinstance(o, (SArr, _np.ndarray, list, tuple)) or hasattr(o, "__sarr__"):
            oi, oshape = _tolist(o)
            si, sshape = self.items, self.shape
            if tuple(oshape) == tuple(sshape):
                pairs = zip(si, oi)
                shape = sshape
            elif len(oi) == 1:
                pairs = ((a, oi[0]) for a in si)
                shape = sshape
            elif len(si) == 1:
                pairs = ((si[0], b) for b in oi)
                shape = oshape
            elif len(sshape) == 2 and len(oshape) == 1 and sshape[1] == oshape[0]:
                pairs = ((si[i * sshape[1] + j], oi[j]) for i in range(sshape[0]) for j in range(sshape[1]))
                shape = sshape
            elif len(sshape) == 2 and len(oshape) == 2 and oshape[1] == 1 and oshape[0] == sshape[0]:
                pairs = ((si[i * sshape[1] + j], oi[i]) for i in range(sshape[0]) for j in range(sshape[1]))
                shape = sshape
            elif len(sshape) == 2 and len(oshape) == 2 and oshape[0] == 1 and oshape[1] == sshape[1]:
                pairs = ((si[i * sshape[1] + j], oi[j]) for i in range(sshape[0]) for j in range(sshape[1]))
                shape = sshape
            else:
                raise ValueError(f"operands could not be broadcast together with shapes {sshape} {oshape}")
            if reflected:
                its = [f(b, a) for a, b in pairs]
            else:
                its = [f(a, b) for a, b in pairs]
            dt = _result_dtype(o, self, op) if reflected else _result_dtype(self, o, op)
            its = _wrap_narrow(its, dt, op)
            return SArr(its, dt, shape if len(shape) > 1 else None)
        o = _py(o)
        if not (is_sym(o) or isinstance(o, (builtins.int, builtins.float, bool)) or o is None or isinstance(o, str)):
            return NotImplemented
        if reflected:
            its = [f(o, a) for a in self.items]
            dt = _result_dtype(o, self, op)
        else:
            its = [f(a, o) for a in self.items]
            dt = _result_dtype(self, o, op)
        its = _wrap_narrow(its, dt, op)
        return SArr(its, dt, self._shape)

    def __add__(self, o): return self._bin(o, "add")
    def __radd__(self, o): return self._bin(o, "add", True)
    def __sub__(self, o): return self._bin(o, "sub")
    def __rsub__(self, o): return self._bin(o, "sub", True)
    def __mul__(self, o): return self._bin(o, "mul")
    def __rmul__(self, o): return self._bin(o, "mul", True)
    def __floordiv__(self, o): return self._bin(o, "floordiv")
    def __rfloordiv__(self, o): return self._bin(o, "floordiv", True)
    def __truediv__(self, o): return self._bin(o, "truediv")
    def __rtruediv__(self, o): return self._bin(o, "truediv", True)
    def __mod__(self, o): return self._bin(o, "mod")
    def __pow__(self, o): return self._bin(o, "pow")
    def __lt__(self, o): return self._bin(o, "lt")
    def __le__(self, o): return self._bin(o, "le")
    def __gt__(self, o): return self._bin(o, "gt")
    def __ge__(self, o): return self._bin(o, "ge")
    def __eq__(self, o): return self._bin(o, "eq")
    def __ne__(self, o): return self._bin(o, "ne")
    def __and__(self, o): return self._bin(o, "and")
    def __rand__(self, o): return self._bin(o, "and", True)
    def __or__(self, o): return self._bin(o, "or")
    def __ror__(self, o): return self._bin(o, "or", True)
    def __xor__(self, o): return self._bin(o, "xor")

    def _inplace(self, r):
        if r is NotImplemented:
            return r
        # numpy in-place keeps the dtype of the target
        if r.dtype != self.dtype:
            r = r.astype(self.dtype)
        self._items = r.items
        return self

    def __iadd__(self, o): return self._inplace(self._bin(o, "add"))
    def __isub__(self, o): return self._inplace(self._bin(o, "sub"))
    def __imul__(self, o): return self._inplace(self._bin(o, "mul"))
    def __itruediv__(self, o):
        if self.dtype.kind != "f":
            raise TypeError("in-place true division on an integer array")
        return self._inplace(self._bin(o, "truediv"))
    def __ifloordiv__(self, o): return self._inplace(self._bin(o, "floordiv"))

    def __neg__(self): return SArr([-x for x in self.items], self.dtype, self._shape)
    def __abs__(self): return SArr([_abs1(x) for x in self.items], self.dtype, self._shape)

    def __invert__(self):
        if self.dtype.kind != "b":
            raise Inconclusive("bitwise invert of non-bool array")
        return SArr([not_(x) for x in self.items], self.dtype, self._shape)

    def __bool__(self):
        if len(self.items) != 1:
            raise ValueError("The truth value of an array with more than one element is ambiguous.")
        return bool(self.items[0])

    # -- reductions ---------------------------------------------------------
    def sum(self, axis=None, **kw):
        if axis is None or self.ndim == 1:
            return ssum(self.items)
        r, c = self.shape
        if axis == 0:
            return SArr([ssum(self.items[i * c + j] for i in range(r)) for j in range(c)], self.dtype)
        return SArr([ssum(self.items[i * c:(i + 1) * c]) for i in range(r)], self.dtype)

    def any(self, axis=None):
        return or_(*[_truthy(x) for x in self.items])

    def all(self, axis=None):
        return and_(*[_truthy(x) for x in self.items])

    def mean(self):
        if not self.items:
            return float("nan")
        return _truediv(self.sum(), len(self.items))

    def var(self):
        mu = self.mean()
        acc = 0
        for x in self.items:
            d = x - mu
            acc = acc + d * d
        return _truediv(acc, len(self.items))

    def min(self):
        return _reduce_minmax(self.items, True)

    def max(self):
        return _reduce_minmax(self.items, False)

    def cumsum(self):
        return cumsum(self)

    def nonzero(self):
        return (flatnonzero(self),)

    def searchsorted(self, v, side="left", sorter=None):
        return searchsorted(self, v, side)

    def item(self, *a):
        if a:
            return self.items[a[0]]
        assert len(self.items) == 1
        return self.items[0]

    def fill(self, v):
        self._items = [v] * len(self.items)

    def unique(self):
        return unique(self)

    # -- indexing -------------------------------------------------------------
    def _norm_slice(self, k, n):
        lo = None if k.start is None else concretize(k.start)
        hi = None if k.stop is None else concretize(k.stop)
        st = None if k.step is None else concretize(k.step)
        return slice(lo, hi, st)

    def __getitem__(self, k):
        if self.ndim == 2:
            return self._getitem2(k)
        if isinstance(k, tuple):
            if len(k) == 1:
                k = k[0]
            elif len(k) == 2 and k[1] is None:
                r = self[k[0]]
                return SArr(r.items, r.dtype, (len(r.items), 1))
            elif len(k) == 2 and k[0] is None:
                r = self[k[1]]
                return SArr(r.items, r.dtype, (1, len(r.items)))
            else:
                raise IndexError("too many indices for array")
        if k is Ellipsis:
            return self
        if isinstance(k, slice):
            n = len(self.items)
            return SView(self, list(range(n))[self._norm_slice(k, n)])
        if hasattr(k, "__sarr__"):
            k = k.__sarr__()
        if isinstance(k, _np.ndarray):
            if k.dtype.kind == "b":
                if len(k) != len(self.items):
                    raise IndexError("boolean index did not match indexed array")
                return SArr([x for x, m in zip(self.items, k.tolist()) if m], self.dtype)
            return SArr([self.items[i] for i in k.tolist()], self.dtype)
        if isinstance(k, list):
            if k and isinstance(k[0], (bool, SBool)):
                k = SArr(k, bool)
            else:
                k = SArr(k)
        if isinstance(k, SArr):
            if k.dtype.kind == "b":
                if len(k) != len(self.items):
                    raise IndexError("boolean index did not match indexed array")
                if k.concrete():
                    return SArr([x for x, m in zip(self.items, k.items) if m], self.dtype)
                return MaskedSel(self.items, k, self.dtype)
            return SArr([self[i] for i in k.items], self.dtype)
        if isinstance(k, (SInt, SBool)):
            n = len(self.items)
            if isinstance(k, SBool):
                k = ite(k, 1, 0)
            if n and bool((k >= 0) & (k < n)):
                return _sel(self.items, k)
            if n and bool((k < 0) & (k >= -n)):
                return _sel(self.items, k + n)
            raise IndexError("index out of bounds")
        return _scalar(self.items[k], self.dtype)

    def _getitem2(self, k):
        r, c = self.shape
        if not isinstance(k, tuple):
            k = (k, slice(None))
        a, b = k
        rows = list(range(r))
        cols = list(range(c))
        _arrlike = (SArr, _np.ndarray, list)
        if isinstance(a, _arrlike) and isinstance(b, _arrlike):
            ai, _ = _tolist(a)
            bi, _ = _tolist(b)
            if not (ai and isinstance(ai[0], bool)) and not (bi and isinstance(bi[0], bool)):
                if len(ai) != len(bi):
                    raise IndexError("shape mismatch: indexing arrays could not be broadcast together")
                return SArr([self.items[concretize(i) * c + concretize(j)] for i, j in zip(ai, bi)], self.dtype)
        def pick(ix, idxs):
            if isinstance(ix, slice):
                return idxs[self._norm_slice(ix, len(idxs))], False
            if isinstance(ix, (SArr, _np.ndarray, list)):
                its, _ = _tolist(ix)
                if its and isinstance(its[0], bool):
                    return [i for i, m in zip(idxs, its) if m], False
                return [idxs[concretize(i)] for i in its], False
            return [idxs[concretize(ix)]], True
        ri, rs = pick(a, rows)
        ci, cs = pick(b, cols)
        its = [self.items[i * c + j] for i in ri for j in ci]
        if rs and cs:
            return _scalar(its[0], self.dtype)
        if rs or cs:
            return SArr(its, self.dtype)
        return SArr(its, self.dtype, (len(ri), len(ci)))

    def __setitem__(self, k, v):
        if hasattr(k, "__sarr__"):
            k = k.__sarr__()
        if hasattr(v, "__sarr__"):
            v = v.__sarr__()
        if self.ndim == 2:
            return self._setitem2(k, v)
        v = _py(v)
        if isinstance(k, SArr) and k.dtype.kind == "b" or (isinstance(k, _np.ndarray) and k.dtype.kind == "b"):
            mk, _ = _tolist(k)
            if len(mk) != len(self.items):
                raise IndexError("boolean index did not match")
            if isinstance(v, MaskedSel) and v._mask is k:
                src = v._base
                self._items = [ite(m, b, a) if isinstance(m, SBool) else (b if m else a)
                               for m, a, b in zip(mk, self._items, src)]
                return
            if isinstance(v, (SArr, _np.ndarray, list)):
                vi, _ = _tolist(v)
                if _b_all(not isinstance(m, SBool) for m in mk):
                    it = iter(vi)
                    if _b_sum(1 for m in mk if m) != len(vi):
                        raise ValueError("NumPy boolean array indexing assignment cannot assign")
                    self._items = [next(it) if m else a for m, a in zip(mk, self._items)]
                    return
                # symbolic mask with positional source: the j-th selected slot gets vi[j]
                vi2 = list(vi)
                nsel = ssum([ite(m, 1, 0) if isinstance(m, SBool) else builtins.int(m) for m in mk])
                if bool(_mk_ne(nsel, len(vi2))):
                    raise ValueError("NumPy boolean array indexing assignment cannot assign")
                out = []
                rank = 0
                for m, a in zip(mk, self._items):
                    out.append(ite(m, _sel(vi2, rank), a) if isinstance(m, SBool) else (_sel(vi2, rank) if m else a) if vi2 else a)
                    rank = rank + (ite(m, 1, 0) if isinstance(m, SBool) else builtins.int(m))
                self._items = out
                return
            self._items = [ite(m, v, a) if isinstance(m, SBool) else (v if m else a) for m, a in zip(mk, self._items)]
            return
        if isinstance(k, slice):
            idx = range(*self._norm_slice(k, len(self._items)).indices(len(self._items)))
            if isinstance(v, (SArr, _np.ndarray, list, tuple)):
                vals, _ = _tolist(v)
                if len(vals) == 1 and len(idx) != 1:
                    vals = vals * len(idx)
                if len(vals) != len(idx):
                    raise ValueError(f"could not broadcast input array from shape ({len(vals)},) into shape ({len(idx)},)")
            else:
                vals = [v] * len(idx)
            its = list(self._items)
            for i, x in zip(idx, vals):
                its[i] = x
            self._items = its
            return
        if isinstance(k, (SArr, _np.ndarray, list)):
            ks, _ = _tolist(k)
            vals = _tolist(v)[0] if isinstance(v, (SArr, _np.ndarray, list)) else [v] * len(ks)
            if _b_all(not is_sym(i) for i in ks):
                its = list(self._items)
                for i, x in zip(ks, vals):
                    its[i] = x
                self._items = its
                return
            n = len(self._items)
            for i, x in zip(ks, vals):
                self._items = [ite(_mk_eq(i, j), x, a) for j, a in enumerate(self._items)]
            return
        if isinstance(k, SInt):
            n = len(self._items)
            if not bool((k >= -n) & (k < n)):
                raise IndexError("index out of bounds")
            kk = ite(k < 0, k + n, k)
            self._items = [ite(_mk_eq(kk, j), v, a) for j, a in enumerate(self._items)]
            return
        its = list(self._items)
        its[k] = v
        self._items = its

    def _setitem2(self, k, v):
        r, c = self.shape
        if isinstance(k, tuple):
            a, b = k
        else:
            a, b = k, slice(None)
        def pick(ix, n):
            if isinstance(ix, slice):
                return list(range(n))[self._norm_slice(ix, n)]
            if isinstance(ix, (SArr, _np.ndarray, list)):
                its, _ = _tolist(ix)
                if its and isinstance(its[0], bool):
                    return [i for i, m in zip(range(n), its) if m]
                return [concretize(i) for i in its]
            return [concretize(ix)]
        ri, ci = pick(a, r), pick(b, c)
        if isinstance(v, (SArr, _np.ndarray, list)):
            vals, _ = _tolist(v)
        else:
            vals = [v] * (len(ri) * len(ci))
        if len(vals) != len(ri) * len(ci):
            if len(vals) == len(ci):
                vals = vals * len(ri)
            else:
                raise ValueError("shape mismatch in 2-d assignment")
        it = iter(vals)
        its = list(self._items)
        for i in ri:
            for j in ci:
                its[i * c + j] = next(it)
        self._items = its


def _scalar(x, dt):
    """element as numpy would hand it out: numpy scalar when concrete, proxy when symbolic"""
    if is_sym(x) or dt.kind not in "iufb":
        return x
    try:
        return dt.type(x)
    except (OverflowError, ValueError):
        return x


def _mk_eq(a, b):
    r = a == b
    return r


def _mk_ne(a, b):
    return a != b


def _truthy(x):
    if isinstance(x, (SBool, bool)):
        return x
    if isinstance(x, SInt):
        return x != 0
    if isinstance(x, SReal):
        return SBool(z3.Or(x.nan, x.v != 0))
    return bool(x)


def _abs1(x):
    if isinstance(x, (SInt, SReal)):
        return x.__abs__()
    return _b_abs(x)


def _trunc(x):
    if isinstance(x, SReal):
        # numpy float->int conversion truncates toward zero
        return SInt(z3.If(x.v >= 0, z3.ToInt(x.v), -z3.ToInt(-x.v)))
    if isinstance(x, builtins.float):
        return builtins.int(x)
    return x


def _reduce_minmax(items, is_min):
    if not items:
        raise ValueError("zero-size array to reduction operation")
    acc = items[0]
    for x in items[1:]:
        c = (x < acc) if is_min else (x > acc)
        acc = ite(c, x, acc) if isinstance(c, SBool) else (x if c else acc)
    return acc


def _sel(items, idx):
    """ite-chain select items[idx] for an idx known to be in range"""
    if not isinstance(idx, SInt):
        return items[idx]
    acc = items[-1]
    for k in range(len(items) - 2, -1, -1):
        acc = ite(idx == k, items[k], acc)
    return acc


class SView(SArr):
    """a[lo:hi]: a view, as in numpy - writes through to the array it was sliced from"""

    def __init__(self, base, idx):
        self._base = base
        self._idx = idx
        self.dtype = base.dtype
        self._shape = None

    @property
    def _items(self):
        b = self._base._items
        return [b[i] for i in self._idx]

    @_items.setter
    def _items(self, v):
        v = list(v)
        if len(v) != len(self._idx):
            raise ValueError("cannot resize a view")
        b = list(self._base._items)
        for i, x in zip(self._idx, v):
            b[i] = x
        self._base._items = b


class MaskedSel(SArr):
    """lazy a[mask]; forks on the mask bits only when its elements are needed"""

    def __init__(self, base, mask, dtype):
        self._base = list(base)
        self._mask = mask
        self._mat = None
        self.dtype = _dt(dtype)
        self._shape = None

    @property
    def _items(self):
        if self._mat is None:
            self._mat = [x for x, m in zip(self._base, self._mask.items) if bool(m)]
        return self._mat

    @_items.setter
    def _items(self, v):
        self._mat = v


# ---------------------------------------------------------------------------
# module-level functions
# ---------------------------------------------------------------------------
def _sym(x, depth=0):
    if isinstance(x, (SInt, SBool, SReal, SArr)):
        return True
    if hasattr(x, "__sarr__"):
        return True
    if depth < 3 and isinstance(x, (list, tuple)):
        return _b_any(_sym(y, depth + 1) for y in x)
    return False


def _A(x, dtype=None):
    if isinstance(x, SArr):
        return x if dtype is None else x.astype(dtype)
    if hasattr(x, "__sarr__"):
        return _A(x.__sarr__(), dtype)
    if isinstance(x, (SInt, SBool, SReal)):
        return SArr([x], dtype, shape=())
    its, shape = _tolist(x)
    dt = dtype
    if dt is None and isinstance(x, _np.ndarray):
        dt = x.dtype
    return SArr(its, dt, shape if len(shape) != 1 else None)


def _numeric(dt):
    return dt is not None and _dt(dt).kind in "iufb"


def _from_real(r):
    """mutable arrays handed to cooler code are always SArr (they may receive symbolic stores later)"""
    if isinstance(r, _np.ndarray) and r.dtype.kind in "iufb" and r.ndim <= 2:
        return SArr(r.ravel().tolist(), r.dtype, r.shape if r.ndim != 1 else None)
    return _wrap(r)


def array(x, dtype=None, *a, **kw):
    if _sym(x):
        if isinstance(x, (SInt, SBool, SReal)):
            return x
        r = _A(x, dtype)
        return r.copy() if r is x else r
    if isinstance(x, SArr):
        return x.astype(dtype) if dtype is not None else x.copy()
    return _from_real(_np.array(x, dtype, *a, **kw))


def asarray(x, dtype=None, *a, **kw):
    if _sym(x):
        if isinstance(x, (SInt, SBool, SReal)):
            return x
        return _A(x, dtype)
    if isinstance(x, SArr):
        return x.astype(dtype) if dtype is not None and _dt(dtype) != x.dtype else x
    return _wrap(_np.asarray(x, dtype, *a, **kw))


asanyarray = asarray


def copy(a):
    if isinstance(a, SArr):
        return a.copy()
    return _from_real(_np.copy(a))


def _n(shape):
    if isinstance(shape, tuple):
        dims = tuple(concretize(s) for s in shape)
    else:
        dims = (concretize(shape),)
    n = 1
    for d in dims:
        n *= d
    return n, (dims if len(dims) > 1 else None)


def _zero(dtype):
    k = _dt(dtype).kind
    return 0.0 if k == "f" else (False if k == "b" else 0)


def _one(dtype):
    k = _dt(dtype).kind
    return 1.0 if k == "f" else (True if k == "b" else 1)


def full(shape, val, dtype=None, **kw):
    if _sym(shape) or _sym(val) or _numeric(dtype if dtype is not None else _elem_dtype(val)):
        n, shp = _n(shape)
        return SArr([_py(val)] * n, dtype if dtype is not None else _elem_dtype(val), shp)
    return _wrap(_np.full(shape, val, dtype, **kw))


def zeros(shape, dtype=float, **kw):
    if _sym(shape) or _numeric(dtype):
        n, shp = _n(shape)
        return SArr([_zero(dtype)] * n, dtype, shp)
    return _wrap(_np.zeros(shape, dtype, **kw))


def ones(shape, dtype=float, **kw):
    if _sym(shape) or _numeric(dtype):
        n, shp = _n(shape)
        return SArr([_one(dtype)] * n, dtype, shp)
    return _wrap(_np.ones(shape, dtype, **kw))


def empty(shape, dtype=float, **kw):
    if _sym(shape) or _numeric(dtype):
        return zeros(shape, dtype)
    return _wrap(_np.empty(shape, dtype, **kw))


def full_like(a, v, dtype=None):
    a = _A(a)
    return SArr([_py(v)] * len(a.items), dtype or a.dtype, a._shape)


def zeros_like(a, dtype=None):
    a = _A(a)
    dt = _dt(dtype) if dtype is not None else a.dtype
    return SArr([_zero(dt)] * len(a.items), dt, a._shape)


def ones_like(a, dtype=None):
    a = _A(a)
    dt = _dt(dtype) if dtype is not None else a.dtype
    return SArr([_one(dt)] * len(a.items), dt, a._shape)


def arange(a, b=None, step=1, dtype=None):
    if _sym([a, b, step]):
        if b is None:
            a, b = 0, a
        step = concretize(step)
        if step <= 0:
            raise Inconclusive("arange with non-positive step")
        # length is what the program needs concretely; the start may stay symbolic
        n = concretize((b - a + step - 1) // step)
        n = _b_max(n, 0)
        return SArr([a + i * step for i in range(n)], dtype or "int64")
    if b is None:
        return _wrap(_np.arange(a, dtype=dtype) if step == 1 else _np.arange(0, a, step, dtype=dtype))
    return _wrap(_np.arange(a, b, step, dtype=dtype))


def concatenate(arrs, axis=0, **kw):
    arrs = list(arrs)
    if _sym(arrs):
        out = []
        dts = []
        for a in arrs:
            a = _A(a)
            out.extend(a.items)
            dts.append(a.dtype)
        try:
            dt = _np.result_type(*dts) if dts else _np.dtype(float)
        except TypeError:
            dt = _np.dtype(object)
        return SArr(out, dt)
    return _wrap(_np.concatenate(arrs, axis=axis, **kw))


class _R:
    def __getitem__(self, parts):
        if not isinstance(parts, tuple):
            parts = (parts,)
        if _sym(parts):
            out = []
            dts = []
            for p in parts:
                if isinstance(p, (SArr, _np.ndarray, list)) or hasattr(p, "__sarr__"):
                    a = _A(p)
                    out.extend(a.items)
                    dts.append(a.dtype)
                elif isinstance(p, slice):
                    raise Inconclusive("r_ with slice on symbolic data")
                else:
                    out.append(_py(p))
                    dts.append(_elem_dtype(p))
            try:
                dt = _np.result_type(*dts)
            except TypeError:
                dt = _np.dtype(object)
            return SArr(out, dt)
        return _wrap(_np.r_[parts])


r_ = _R()


def searchsorted(a, v, side="left", sorter=None):
    """#elements < v (left) / <= v (right): closed form, no forking; `a` is assumed sorted
    (as numpy's contract requires)."""
    if _sym(a) or _sym(v):
        ai, _ = _tolist(a) if not isinstance(a, SArr) else (a.items, None)

        def one(x):
            acc = 0
            for it in ai:
                c = (it < x) if side == "left" else (it <= x)
                acc = acc + (ite(c, 1, 0) if isinstance(c, SBool) else builtins.int(c))
            return acc
        if isinstance(v, (SArr, _np.ndarray, list)) or hasattr(v, "__sarr__"):
            vi, _ = _tolist(v)
            return SArr([one(x) for x in vi], "int64")
        return one(_py(v))
    return _wrap(_np.searchsorted(a, v, side, sorter))


def _lt_fork(a, b):
    return bool(a < b)


def unique(a, return_index=False, return_inverse=False, return_counts=False, **kw):
    if _sym(a):
        if return_index or return_inverse or return_counts:
            raise Inconclusive("np.unique with return_* on symbolic data")
        a = _A(a)
        out = []
        for x in a.items:
            pos = 0
            dup = False
            for y in out:
                if bool(_eq(x, y)):
                    dup = True
                    break
                if bool(y < x):
                    pos += 1
            if not dup:
                out.insert(pos, x)
        return SArr(out, a.dtype)
    return _wrap(_np.unique(a, return_index=return_index, return_inverse=return_inverse,
                            return_counts=return_counts, **kw))


def any(a, axis=None, **kw):
    if _sym(a):
        return _A(a).any()
    return _wrap(_np.any(a, axis=axis, **kw))


def all(a, axis=None, **kw):
    if _sym(a):
        return _A(a).all()
    return _wrap(_np.all(a, axis=axis, **kw))


def sum(a, axis=None, **kw):
    if _sym(a):
        return _A(a).sum(axis=axis)
    return _wrap(_np.sum(a, axis=axis, **kw))


def mean(a, **kw):
    if _sym(a):
        return _A(a).mean()
    return _wrap(_np.mean(a, **kw))


def var(a, **kw):
    if _sym(a):
        return _A(a).var()
    return _wrap(_np.var(a, **kw))


def cumsum(a, axis=None, dtype=None, out=None):
    if _sym(a) or isinstance(out, SArr):
        a = _A(a)
        res = []
        acc = 0
        for x in a.items:
            if isinstance(x, SBool):
                x = ite(x, 1, 0)
            acc = acc + x
            res.append(acc)
        r = SArr(res, dtype if dtype is not None else (a.dtype if a.dtype.kind != "b" else "int64"))
        return _into(out, r)
    if out is not None:
        return _np.cumsum(a, axis=axis, dtype=dtype, out=out)
    return _wrap(_np.cumsum(a, axis=axis, dtype=dtype))


def diff(a, n=1, **kw):
    if _sym(a):
        a = _A(a)
        return SArr([a.items[i + 1] - a.items[i] for i in range(len(a.items) - 1)], a.dtype)
    return _wrap(_np.diff(a, n, **kw))


def flatnonzero(a):
    if _sym(a):
        a = _A(a)
        return _wrap(_np.array([i for i, x in enumerate(a.items) if bool(_truthy(x))], dtype=_np.intp))
    return _wrap(_np.flatnonzero(a))


def nonzero(a):
    if _sym(a) or isinstance(a, SArr):
        a = _A(a)
        if a.ndim == 2:
            r, c = a.shape
            hit = [(i, j) for i in range(r) for j in range(c) if bool(_truthy(a.items[i * c + j]))]
            return (_np.array([h[0] for h in hit], dtype=_np.intp).view(CArr), _np.array([h[1] for h in hit], dtype=_np.intp).view(CArr))
        return (flatnonzero(a),)
    return _wrap(_np.nonzero(a))


def where(c, a=None, b=None):
    if _sym([c, a, b]):
        if a is None:
            return (flatnonzero(c),)
        c = _A(c)
        n = len(c.items)
        ai = _tolist(a)[0] if isinstance(a, (SArr, _np.ndarray, list)) else [_py(a)] * n
        bi = _tolist(b)[0] if isinstance(b, (SArr, _np.ndarray, list)) else [_py(b)] * n
        its = [ite(m, x, y) if isinstance(m, SBool) else (x if m else y) for m, x, y in zip(c.items, ai, bi)]
        return SArr(its, _result_dtype(a if isinstance(a, (SArr, _np.ndarray)) else ai[0] if ai else 0,
                                       b if isinstance(b, (SArr, _np.ndarray)) else bi[0] if bi else 0, "add"), c._shape)
    if a is None:
        return _wrap(_np.where(c))
    return _wrap(_np.where(c, a, b))


def bincount(ids, weights=None, minlength=0):
    if _sym(ids) or _sym(weights) or _sym(minlength):
        ids = _A(ids)
        n = concretize(minlength)
        # numpy grows the result to max(ids)+1; make that explicit
        if ids.items:
            mx = ids.max()
            top = concretize(mx) if is_sym(mx) else mx
            n = _b_max(n, top + 1)
            mn = ids.min()
            if bool(mn < 0):
                raise ValueError("'list' argument must have no negative elements")
        wi = _tolist(weights)[0] if weights is not None else [1] * len(ids.items)
        isf = weights is not None
        out = []
        for k in range(n):
            acc = 0.0 if isf else 0
            for i, w in zip(ids.items, wi):
                c = (i == k)
                if isinstance(c, SBool):
                    acc = acc + ite(c, w, 0.0 if isf else 0)
                elif c:
                    acc = acc + w
            out.append(acc)
        return SArr(out, "float64" if isf else "int64")
    return _wrap(_np.bincount(ids, weights=weights, minlength=minlength))


def _un(fsym, freal):
    def f(x, *a, **kw):
        if isinstance(x, (SInt, SBool, SReal)):
            return fsym(x)
        if _sym(x):
            x = _A(x)
            return SArr([fsym(y) if is_sym(y) else _py(freal(y)) for y in x.items], *_undt(freal, x))
        return freal(x, *a, **kw)
    return f


def _undt(freal, x):
    try:
        dt = freal(_np.zeros(1, dtype=x.dtype)).dtype
    except Exception:
        dt = x.dtype
    return dt, x._shape


def _floor1(x):
    if isinstance(x, SReal):
        return SReal(z3.ToReal(z3.ToInt(x.v)), x.nan)
    return x


def _ceil1(x):
    if isinstance(x, SReal):
        return SReal(z3.ToReal(-z3.ToInt(-x.v)), x.nan)
    return x


def _sqrt1(x):
    x = SReal.of(x)
    r = z3.Real(CTX.fresh_name("sqrt"))
    CTX.add(z3.Implies(z3.And(z3.Not(x.nan), x.v >= 0), z3.And(r >= 0, r * r == x.v)))
    return SReal(r, z3.Or(x.nan, x.v < 0))


def _isnan1(x):
    if isinstance(x, SReal):
        return x.isnan()
    return False


def _isfinite1(x):
    if isinstance(x, SReal):
        return ~x.isnan()
    return True


floor = _un(_floor1, _np.floor)
ceil = _un(_ceil1, _np.ceil)
sqrt = _un(_sqrt1, _np.sqrt)
abs = _un(_abs1, _np.abs)
absolute = abs
isnan = _un(_isnan1, _np.isnan)
isfinite = _un(_isfinite1, _np.isfinite)


def _const_value(x):
    """python number behind a proxy whose expression is a constant, else None"""
    import z3
    if isinstance(x, (builtins.int, builtins.float, _np.integer, _np.floating)):
        return x
    if isinstance(x, SInt):
        e = z3.simplify(x.e)
        return e.as_long() if z3.is_int_value(e) else None
    if isinstance(x, SReal):
        nan = z3.simplify(x.nan) if not isinstance(x.nan, bool) else x.nan
        if z3.is_true(nan) if not isinstance(nan, bool) else nan:
            return builtins.float("nan")
        if not (z3.is_false(nan) if not isinstance(nan, bool) else not nan):
            return None
        e = z3.simplify(x.v)
        if z3.is_rational_value(e):
            return e.numerator_as_long() / e.denominator_as_long()
        return None
    return None


def _transcend(name):
    def f(x, *a, **kw):
        if _sym(x):
            # data that is concrete behind its proxies (e.g. after the harness let the solver enumerate it) is handed to numpy
            items, shape = _tolist(x)
            vals = [_const_value(y) for y in items]
            if _b_any(v is None for v in vals):
                if os.environ.get("VERIF_DEBUG"):
                    print("non-constant items:", [(type(y).__name__, y) for y, v in zip(items, vals) if v is None][:3], file=sys.stderr)
                raise Inconclusive(f"np.{name} on symbolic data is outside the encoding")
            x = _np.array(vals, dtype=float).reshape(shape)
        return getattr(_np, name)(x, *a, **kw)
    return f


log = _transcend("log")
log2 = _transcend("log2")
exp = _transcend("exp")
median = _transcend("median")


def outer(a, b):
    if _sym(a) or _sym(b):
        ai, _ = _tolist(a)
        bi, _ = _tolist(b)
        return SArr([x * y for x in ai for y in bi], _result_dtype(_A(a), _A(b), "mul"), (len(ai), len(bi)))
    return _wrap(_np.outer(a, b))


def _into(out, r):
    """ufunc `out=`: the result is written into `out` (cast to its dtype) and `out` is returned"""
    if out is None:
        return r
    if isinstance(out, SArr):
        r = _A(r)
        if len(r) == 1 and len(out) != 1:
            r = SArr(list(r.items) * len(out), r.dtype)
        out[:] = r.astype(out.dtype) if r.dtype != out.dtype else r
        return out
    if _sym(r):
        raise Inconclusive("ufunc out= into a real array with symbolic data")
    out[...] = r
    return out


def _binary_ufunc(op, real):
    """np.add / subtract / multiply / true_divide as functions (with out=) when symbolic data or a model array takes part"""
    def f(a, b, out=None, **kw):
        if _sym(a) or _sym(b) or isinstance(a, SArr) or isinstance(b, SArr) or isinstance(out, SArr):
            left = _A(a) if (isinstance(a, (list, tuple, _np.ndarray)) and not isinstance(a, SArr)) else a
            return _into(out, op(left, b))
        return _wrap(real(a, b, **kw)) if out is None else real(a, b, out=out, **kw)
    f.__name__ = real.__name__
    return f


import operator as _operator  # noqa: E402
add = _binary_ufunc(_operator.add, _np.add)
subtract = _binary_ufunc(_operator.sub, _np.subtract)
multiply = _binary_ufunc(_operator.mul, _np.multiply)
true_divide = divide = _binary_ufunc(_operator.truediv, _np.true_divide)


def minimum(a, b, out=None):
    if _sym(a) or _sym(b):
        c = a < b
        if isinstance(c, SArr):
            return _into(out, where(c, a, b))
        return _into(out, ite(c, a, b) if isinstance(c, SBool) else (a if c else b))
    return _wrap(_np.minimum(a, b)) if out is None else _into(out, _np.minimum(a, b))


def maximum(a, b, out=None):
    if _sym(a) or _sym(b):
        c = a > b
        if isinstance(c, SArr):
            return _into(out, where(c, a, b))
        return _into(out, ite(c, a, b) if isinstance(c, SBool) else (a if c else b))
    return _wrap(_np.maximum(a, b)) if out is None else _into(out, _np.maximum(a, b))


def linspace(lo, hi, num=50, endpoint=True, retstep=False, dtype=None, axis=0):
    """Stub E1: for integer dtype, arbitrary non-decreasing integers with exact end points.
    Sound for whatever rounding real linspace performs."""
    if _sym([lo, hi, num]):
        if dtype is None or _dt(dtype).kind not in "iu":
            raise Inconclusive("float linspace on symbolic data")
        num = concretize(num)
        if num < 0:
            raise ValueError("Number of samples, %s, must be non-negative." % num)
        if num == 0:
            return SArr([], dtype)
        if num == 1:
            return SArr([lo], dtype)
        cuts = [lo]
        for k in range(1, num - 1):
            x = fresh_int("linspace")
            CTX.add(z3.And(_ei(cuts[-1]) <= x.e, x.e <= _ei(hi)))
            cuts.append(x)
        cuts.append(hi)
        return SArr(cuts, dtype)
    return _wrap(_np.linspace(lo, hi, num, endpoint, retstep, dtype, axis))


def isscalar(x):
    if isinstance(x, (SInt, SBool, SReal)):
        return True
    return _wrap(_np.isscalar(x))


def ndim(x):
    if isinstance(x, SArr):
        return x.ndim
    if isinstance(x, (SInt, SBool, SReal)):
        return 0
    return _wrap(_np.ndim(x))


def lexsort(keys):
    if _b_any(_sym(k) for k in keys) if isinstance(keys, (list, tuple)) else _sym(keys):
        # stable insertion sort by the LAST key first (numpy's convention); comparisons fork
        cols = [_A(k).items for k in reversed(list(keys))]
        n = len(cols[0])

        def less(i, j):
            c = False
            for col in reversed(cols):          # build from the least significant key outwards
                c = or_(col[i] < col[j], and_(col[i] == col[j], c))
            return c
        out = []
        for i in range(n):
            pos = len(out)
            while pos > 0 and bool(less(i, out[pos - 1])):
                pos -= 1
            out.insert(pos, i)
        return _wrap(_np.array(out, dtype=_np.intp))
    return _wrap(_np.lexsort(keys))


def argsort(a, *args, **kw):
    if _sym(a):
        a = _A(a)
        out = []
        for i, x in enumerate(a.items):
            pos = len(out)
            while pos > 0 and bool(x < a.items[out[pos - 1]]):
                pos -= 1
            out.insert(pos, i)
        return _wrap(_np.array(out, dtype=_np.intp))
    return _wrap(_np.argsort(a, *args, **kw))


def array_equal(a, b):
    if _sym(a) or _sym(b):
        ai, sa = _tolist(a)
        bi, sb = _tolist(b)
        if tuple(sa) != tuple(sb):
            return False
        return bool(and_(*[_eq(x, y) for x, y in zip(ai, bi)]))
    return _wrap(_np.array_equal(a, b))


class _NdarrayMeta(type):
    def __instancecheck__(cls, o):
        return isinstance(o, (_np.ndarray, SArr))


class ndarray(metaclass=_NdarrayMeta):
    pass
