"""Numeral strings whose digit characters are symbolic (bit-vector variables 0..9); every other character is concrete.
`float(s)` is encoded bit-precisely (one correctly rounded binary64 division, which is what strtod yields for a decimal with
< 2^53 mantissa and <= 22 fraction digits), `int(value)` as fp.to_sbv(RTZ); Fraction/Decimal(s) are exact."""
from __future__ import annotations

import builtins
import re as _re

import z3

from .symcore import CTX, Inconclusive, SBool, SInt

W = 64
F64 = z3.Float64()
RNE = z3.RNE()
FLOAT_EXACT = False  # True: float(numeral) is the exact rational (grammar checks that are not about rounding)


class D:
    """a symbolic decimal digit"""
    __slots__ = ("bv",)

    def __init__(self, bv):
        self.bv = bv


def new_digit(name):
    v = z3.BitVec(name, W)
    CTX.add(z3.ULE(v, 9))
    x = SIntBV(v)
    CTX.inputs[name] = x
    return D(v)


class SIntBV(SInt):
    """non-negative integer carried as a 64-bit vector (its Int view is BV2Int)"""
    __slots__ = ("bv",)

    def __init__(self, bv):
        self.bv = bv
        self.e = z3.BV2Int(bv, False)

    def _cmp(self, o, f, fi):
        if isinstance(o, SIntBV):
            return SBool(f(self.bv, o.bv))
        if isinstance(o, builtins.int) and 0 <= o < 2 ** 62:
            return SBool(f(self.bv, z3.BitVecVal(o, W)))
        return fi(o)

    def __lt__(self, o): return self._cmp(o, z3.ULT, lambda o: SInt.__lt__(self, o))
    def __le__(self, o): return self._cmp(o, z3.ULE, lambda o: SInt.__le__(self, o))
    def __gt__(self, o): return self._cmp(o, z3.UGT, lambda o: SInt.__gt__(self, o))
    def __ge__(self, o): return self._cmp(o, z3.UGE, lambda o: SInt.__ge__(self, o))
    def __eq__(self, o): return self._cmp(o, lambda a, b: a == b, lambda o: SInt.__eq__(self, o))
    def __ne__(self, o): return self._cmp(o, lambda a, b: a != b, lambda o: SInt.__ne__(self, o))
    __hash__ = SInt.__hash__

    def __mul__(self, o):
        if isinstance(o, builtins.int) and 0 <= o < 2 ** 40:
            return SIntBV(self.bv * z3.BitVecVal(o, W))
        return SInt.__mul__(self, o)

    __rmul__ = __mul__


class SFP:
    """binary64 value (z3 FloatingPoint), only the operations parse_humanized-like code performs"""
    __slots__ = ("v",)
    __array_ufunc__ = None

    def __init__(self, v):
        self.v = v

    @staticmethod
    def const(x):
        return z3.FPVal(builtins.float(x), F64)

    def __mul__(self, o):
        if isinstance(o, SFP):
            return SFP(z3.fpMul(RNE, self.v, o.v))
        if isinstance(o, (builtins.int, builtins.float)):
            return SFP(z3.fpMul(RNE, self.v, self.const(o)))
        return NotImplemented

    __rmul__ = __mul__

    def __truediv__(self, o):
        if isinstance(o, (builtins.int, builtins.float)):
            return SFP(z3.fpDiv(RNE, self.v, self.const(o)))
        return NotImplemented

    def __add__(self, o):
        if isinstance(o, (builtins.int, builtins.float)):
            return SFP(z3.fpAdd(RNE, self.v, self.const(o)))
        return NotImplemented

    __radd__ = __add__

    def __symint__(self, *a):
        return SIntBV(z3.fpToSBV(z3.RTZ(), self.v, z3.BitVecSort(W)))

    def __symround__(self, nd=None):
        if nd is not None:
            raise Inconclusive("round(x, ndigits) on a symbolic float")
        return SIntBV(z3.fpToSBV(RNE, z3.fpRoundToIntegral(RNE, self.v), z3.BitVecSort(W)))

    def __symfloat__(self):
        return self

    def __repr__(self):
        return "<SFP>"

    def __format__(self, spec):
        return "<SFP>"


class SFrac:
    """exact non-negative rational num/den (num a bit vector, den a python int)"""
    __slots__ = ("num", "den")

    def __init__(self, num, den=1):
        self.num, self.den = num, den

    def __mul__(self, o):
        if isinstance(o, builtins.int) and o >= 0:
            return SFrac(self.num * z3.BitVecVal(o, W), self.den)
        return NotImplemented

    __rmul__ = __mul__

    def __symint__(self, *a):
        return SIntBV(z3.UDiv(self.num, z3.BitVecVal(self.den, W)) if self.den != 1 else self.num)

    def __symround__(self, nd=None):
        raise Inconclusive("round() of an exact rational")

    def __symfloat__(self):
        return self

    def __repr__(self):
        return "<SFrac>"

    def __format__(self, spec):
        return "<SFrac>"


class SymStr:
    def __init__(self, chars):
        self.chars = list(chars)  # each: 1-char str or D

    @staticmethod
    def of(shape, prefix="d"):
        """shape: 'D' marks a symbolic digit; returns (SymStr, list of digit objects)"""
        chars, ds = [], []
        for ch in shape:
            if ch == "D":
                d = new_digit(f"{prefix}{len(ds)}")
                ds.append(d)
                chars.append(d)
            else:
                chars.append(ch)
        return SymStr(chars), ds

    def rep(self):
        return "".join(c if isinstance(c, str) else "1" for c in self.chars)

    def __len__(self):
        return len(self.chars)

    def __getitem__(self, k):
        r = self.chars[k]
        return SymStr(r) if isinstance(k, slice) else SymStr([r])

    def __iter__(self):
        return iter([SymStr([c]) for c in self.chars])

    def __add__(self, o):
        return SymStr(self.chars + (list(o) if isinstance(o, str) else o.chars))

    def __radd__(self, o):
        return SymStr(list(o) + self.chars)

    def replace(self, a, b):
        if len(a) != 1 or a.isdigit():
            raise Inconclusive("SymStr.replace with a digit / multi-char pattern")
        out = []
        for c in self.chars:
            if c == a:
                out.extend(list(b))
            else:
                out.append(c)
        return SymStr(out)

    def split(self, sep=None, maxsplit=-1):
        if sep is None or sep.isdigit():
            raise Inconclusive("SymStr.split on whitespace/digits")
        parts, cur, i = [], [], 0
        n = len(sep)
        ch = self.chars
        while i < len(ch):
            if all(isinstance(c, str) for c in ch[i:i + n]) and "".join(ch[i:i + n]) == sep and (maxsplit < 0 or len(parts) < maxsplit):
                parts.append(SymStr(cur))
                cur = []
                i += n
            else:
                cur.append(ch[i])
                i += 1
        parts.append(SymStr(cur))
        return parts

    def partition(self, sep):
        parts = self.split(sep, 1)
        if len(parts) == 1:
            return parts[0], "", ""
        return parts[0], sep, parts[1]

    def rpartition(self, sep):
        if any(ch.isdigit() for ch in sep):
            raise Inconclusive("rpartition on digits")
        rep = self.rep()
        i = rep.rfind(sep)
        if i < 0:
            return "", "", self
        return self[:i], sep, self[i + len(sep):]

    def find(self, sub):
        if any(ch.isdigit() for ch in sub):
            raise Inconclusive("find(digit)")
        return self.rep().find(sub)

    def strip(self, chars=None):
        ch = list(self.chars)
        while ch and isinstance(ch[0], str) and ch[0].isspace():
            ch.pop(0)
        while ch and isinstance(ch[-1], str) and ch[-1].isspace():
            ch.pop()
        return SymStr(ch)

    def ljust(self, width, fill=" "):
        return SymStr(self.chars + [fill] * max(0, width - len(self.chars)))

    def rjust(self, width, fill=" "):
        return SymStr([fill] * max(0, width - len(self.chars)) + self.chars)

    def zfill(self, width):
        return self.rjust(width, "0")

    def upper(self):
        return SymStr([c.upper() if isinstance(c, str) else c for c in self.chars])

    def lower(self):
        return SymStr([c.lower() if isinstance(c, str) else c for c in self.chars])

    def startswith(self, p):
        return self.rep().startswith(p) and not any(ch.isdigit() for ch in p)

    def endswith(self, p):
        if any(ch.isdigit() for ch in p):
            raise Inconclusive("endswith(digit)")
        return self.rep().endswith(p)

    def isdigit(self):
        return bool(self.chars) and all(isinstance(c, D) or c.isdigit() for c in self.chars)

    def __contains__(self, sub):
        if any(ch.isdigit() for ch in sub):
            raise Inconclusive("digit containment test on a symbolic numeral")
        return sub in self.rep()

    def __eq__(self, o):
        if isinstance(o, str):
            if len(o) != len(self.chars):
                return False
            conds = []
            for c, x in zip(self.chars, o):
                if isinstance(c, str):
                    if c != x:
                        return False
                else:
                    if not x.isdigit():
                        return False
                    conds.append(c.bv == int(x))
            return bool(SBool(z3.And(conds))) if conds else True
        if isinstance(o, SymStr):
            return len(self.chars) == len(o.chars) and all((isinstance(a, str) and a == b) or (a is b) for a, b in zip(self.chars, o.chars))
        return NotImplemented

    def __ne__(self, o):
        r = self.__eq__(o)
        return r if r is NotImplemented else not r

    def __hash__(self):
        return hash(self.rep())

    def __bool__(self):
        return bool(self.chars)

    def __str__(self):
        return self.rep()

    __repr__ = __str__

    def __format__(self, spec):
        return self.rep()

    # numeric conversions ------------------------------------------------------
    def _digits_value(self, ch):
        acc = z3.BitVecVal(0, W)
        nd = 0
        for c in ch:
            if c == ".":
                continue
            acc = acc * 10 + (c.bv if isinstance(c, D) else z3.BitVecVal(int(c), W))
            nd += 1
        if nd > 17:
            raise Inconclusive("numeral longer than 17 digits")
        return acc

    def __symint__(self, *a):
        ch = self.strip().chars
        if not ch or not all(isinstance(c, D) or c.isdigit() for c in ch):
            raise ValueError(f"invalid literal for int() with base 10: '{self.rep()}'")
        return SIntBV(self._digits_value(ch))

    def _decimal(self):
        ch = self.strip().chars
        s = "".join("9" if isinstance(c, D) else c for c in ch)
        builtins.float(s)  # raises ValueError for shapes float() refuses
        if not all(isinstance(c, D) or c.isdigit() or c == "." for c in ch):
            raise Inconclusive(f"float() of the shape {s!r} is not modelled")
        F = len(s) - s.index(".") - 1 if "." in s else 0
        if F > 22:
            raise Inconclusive("more than 22 fraction digits")
        return self._digits_value(ch), F

    def __symfloat__(self):
        d, F = self._decimal()
        if FLOAT_EXACT:
            return SFrac(d, 10 ** F)
        fd = z3.fpSignedToFP(RNE, d, F64)
        return SFP(z3.fpDiv(RNE, fd, z3.FPVal(builtins.float(10 ** F), F64)) if F else fd)

    def __symfraction__(self):
        ch = self.strip().chars
        s = "".join("9" if isinstance(c, D) else c for c in ch)
        import fractions
        fractions.Fraction(s)  # raises ValueError for shapes Fraction() refuses
        d, F = self._decimal()
        return SFrac(d, 10 ** F)


# ---------------------------------------------------------------------------
# `re` on numeral strings: the real re runs on a digit-representative string; sound as long as the pattern mentions digits
# only through classes that contain all ten or none (checked on the pattern's parse tree at compile time)
# ---------------------------------------------------------------------------
class _Match:
    def __init__(self, m, s):
        self.m, self.s = m, s

    @property
    def lastgroup(self):
        return self.m.lastgroup

    def group(self, g=0):
        a, b = self.m.span(g)
        return self.s[a:b] if a >= 0 else None

    def groups(self):
        return tuple(self.group(i) for i in range(1, (self.m.re.groups or 0) + 1))

    def span(self, g=0):
        return self.m.span(g)

    def start(self, g=0):
        return self.m.start(g)

    def end(self, g=0):
        return self.m.end(g)


class _Pattern:
    def __init__(self, pat, flags=0):
        import re._parser as sp

        def walk(p):
            for op, av in p:
                if op is sp.LITERAL and chr(av).isdigit():
                    raise Inconclusive("regular expression mentions a literal digit")
                if op is sp.IN:
                    for o2, a2 in av:
                        if o2 is sp.LITERAL and chr(a2).isdigit():
                            raise Inconclusive("regular expression has a literal digit in a class")
                        if o2 is sp.RANGE:
                            lo, hi = a2
                            inter = [d for d in "0123456789" if lo <= ord(d) <= hi]
                            if len(inter) not in (0, 10):
                                raise Inconclusive("regular expression class splits the digits")
                if isinstance(av, tuple):
                    for x in av:
                        if isinstance(x, sp.SubPattern):
                            walk(x)
                        if isinstance(x, list):
                            for y in x:
                                if isinstance(y, sp.SubPattern):
                                    walk(y)
                if isinstance(av, sp.SubPattern):
                    walk(av)
        walk(sp.parse(pat, flags))
        self.p = _re.compile(pat, flags)

    def split(self, s, maxsplit=0):
        if isinstance(s, str):
            return self.p.split(s, maxsplit)
        rep, out, pos = s.rep(), [], 0
        for m in self.p.finditer(rep):
            out.append(s[pos:m.start()])
            for g in range(1, (self.p.groups or 0) + 1):
                a, b = m.span(g)
                out.append(s[a:b] if a >= 0 else None)
            pos = m.end()
        out.append(s[pos:])
        return out

    def finditer(self, s):
        if isinstance(s, str):
            return self.p.finditer(s)
        return (_Match(m, s) for m in self.p.finditer(s.rep()))

    def _one(self, f, s):
        if isinstance(s, str):
            return f(s)
        m = f(s.rep())
        return _Match(m, s) if m else None

    def match(self, s):
        return self._one(self.p.match, s)

    def search(self, s):
        return self._one(self.p.search, s)

    def fullmatch(self, s):
        return self._one(self.p.fullmatch, s)


class re_shim:
    IGNORECASE = I = _re.IGNORECASE
    U = UNICODE = _re.U
    error = _re.error

    @staticmethod
    def compile(pat, flags=0):
        return _Pattern(pat, flags)

    @staticmethod
    def split(pat, s, maxsplit=0, flags=0):
        return _Pattern(pat, flags).split(s, maxsplit)

    @staticmethod
    def match(pat, s, flags=0):
        return _Pattern(pat, flags).match(s)

    @staticmethod
    def search(pat, s, flags=0):
        return _Pattern(pat, flags).search(s)

    @staticmethod
    def fullmatch(pat, s, flags=0):
        return _Pattern(pat, flags).fullmatch(s)
