"""`multiprocess` stand-in: no real processes inside the symbolic run (stub E7)."""
import contextlib


class _Lock:
    def acquire(self, *a, **k):
        return True

    def release(self):
        pass

    def __enter__(self):
        return self

    def __exit__(self, *a):
        return False


def Lock():
    return _Lock()


class Pool:
    def __init__(self, n=None, *a, **k):
        self.n = n

    def map(self, f, it, *a, **k):
        return list(map(f, it))

    def imap(self, f, it, *a, **k):
        return map(f, it)

    imap_unordered = imap

    def close(self):
        pass

    def join(self):
        pass

    def terminate(self):
        pass

    def __enter__(self):
        return self

    def __exit__(self, *a):
        return False


def cpu_count():
    return 1
