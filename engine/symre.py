"""`re` as seen by cooler.util inside a symbolic run (see symstr.re_shim)"""
import re as _re
from .symstr import re_shim as _s


def __getattr__(name):
    return getattr(_re, name)


compile = _s.compile
split = _s.split
match = _s.match
search = _s.search
fullmatch = _s.fullmatch
