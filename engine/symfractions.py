"""`fractions` / `decimal` stand-ins: exact rationals for symbolic numerals, the real classes otherwise."""
import decimal as _decimal
import fractions as _fractions


def __getattr__(name):
    if hasattr(_fractions, name):
        return getattr(_fractions, name)
    return getattr(_decimal, name)


class _Meta(type):
    def __instancecheck__(cls, o):
        from .symstr import SFrac
        return isinstance(o, (_fractions.Fraction, _decimal.Decimal, SFrac))


class Fraction(metaclass=_Meta):
    def __new__(cls, *a, **kw):
        if len(a) == 1 and hasattr(a[0], "__symfraction__"):
            return a[0].__symfraction__()
        return _fractions.Fraction(*a, **kw)


class Decimal(metaclass=_Meta):
    def __new__(cls, *a, **kw):
        if len(a) >= 1 and hasattr(a[0], "__symfraction__"):
            try:
                return a[0].__symfraction__()
            except ValueError:
                raise _decimal.InvalidOperation from None
        return _decimal.Decimal(*a, **kw)


InvalidOperation = _decimal.InvalidOperation
