"""pandas.api.types with symbolic-aware overrides."""
import pandas.api.types as _t
from .symcore import SInt, SBool, SReal


def __getattr__(name):
    return getattr(_t, name)


def is_integer(x):
    return isinstance(x, SInt) or _t.is_integer(x)


def is_scalar(x):
    return isinstance(x, (SInt, SBool, SReal)) or _t.is_scalar(x)


def is_integer_dtype(x):
    d = getattr(x, "dtype", x)
    return _t.is_integer_dtype(d)
