"""pysam stand-in for TabixAggregator: a tabix-indexed pairs file is a list of records; fetch(chrom, start, end) yields, in file
order, the records on `chrom` whose zero-based first position lies in [start, end) - the documented contract of a point-feature
tabix index (stub, part of the claim of C05 `tabix`)."""
from .symcore import and_

FILES = {}   # path -> dict(records=[tuple...], contigs=[...], pos_col=int, one_based=bool)


class asTuple:
    pass


class TabixFile:
    def __init__(self, path, mode="r", encoding=None, **kw):
        if path not in FILES:
            raise OSError(f"file `{path}` not found")
        self.f = FILES[path]

    @property
    def contigs(self):
        return list(self.f["contigs"])

    def fetch(self, reference=None, start=None, end=None, parser=None, **kw):
        dec = 1 if self.f["one_based"] else 0
        for rec in self.f["records"]:
            if rec[0] != reference:
                continue
            z = rec[self.f["pos_col"]] - dec
            if bool(and_(True if start is None else start <= z, True if end is None else z < end)):
                yield rec

    def close(self):
        pass

    def __enter__(self):
        return self

    def __exit__(self, *a):
        return False


Tabixfile = TabixFile
