import pandas as _pd
def __getattr__(name):
    return getattr(_pd, name)
