"""Hybrid pandas shim: the module cooler sees as `pandas` when loaded as `symcooler`.

Inside a symbolic run every frame / series constructed through this module is an SFrame / SSeries.
Columns are SArr (numeric, possibly symbolic), SCat (categorical: SArr of codes + concrete categories)
or opaque concrete numpy arrays (strings, objects).  Operations on fully concrete objects that have no
explicit model are delegated to real pandas (convert -> run -> wrap back).
"""
from __future__ import annotations

import builtins

import numpy as _np
import pandas as _pd
import z3

from . import symnp
from .symcore import (CTX, Inconclusive, SBool, SInt, SReal, and_, concretize, is_sym, ite, not_, or_, ssum)
from .symnp import CArr, SArr, _A, _sel, _tolist

_b_any, _b_all, _b_min, _b_max, _b_sum = builtins.any, builtins.all, builtins.min, builtins.max, builtins.sum


CSV_LOG = []  # frames passed to DataFrame.to_csv(<stream>, ...) in a symbolic run


def __getattr__(name):
    attr = getattr(_pd, name)
    if callable(attr) and not isinstance(attr, type):
        def f(*a, **kw):
            return wrap(attr(*[unwrap(x) for x in a], **{k: unwrap(v) for k, v in kw.items()}))
        f.__name__ = name
        return f
    return attr


# ---------------------------------------------------------------------------
# columns
# ---------------------------------------------------------------------------
class SCat:
    """categorical column: integer codes (SArr, -1 = missing) + concrete categories"""

    def __init__(self, codes, categories, ordered=False):
        self.codes = codes if isinstance(codes, SArr) else _A(codes)
        if self.codes.dtype.kind not in "iu" and not isinstance(self.codes, symnp.MaskedSel):
            self.codes = self.codes.astype("int64")
        self.categories = _pd.Index(categories)
        self.ordered = ordered

    def __len__(self):
        return len(self.codes)

    @property
    def dtype(self):
        return _pd.CategoricalDtype(self.categories, self.ordered)

    def to_real(self):
        return _pd.Categorical.from_codes(self.codes.to_real(), categories=self.categories, ordered=self.ordered)

    def concrete(self):
        return self.codes.concrete()

    def __symeval__(self, m):
        from .symcore import eval_value
        cats = list(self.categories)
        return [cats[c] if c >= 0 else None for c in eval_value(m, self.codes)]

    def copy(self):
        return SCat(self.codes.copy(), self.categories, self.ordered)

    # the bits of the pandas.Categorical array interface cooler uses
    def __getitem__(self, k):
        r = self.codes[k]
        if isinstance(r, SArr):
            return SCat(r, self.categories, self.ordered)
        if isinstance(r, SInt):
            return self.categories[concretize(r)]
        return self.categories[r] if r >= 0 else _np.nan

    def _cmp(self, o, neg):
        if isinstance(o, SCat) and list(o.categories) == list(self.categories):
            return (self.codes != o.codes) if neg else (self.codes == o.codes)
        if isinstance(o, str):
            cats = list(self.categories)
            c = cats.index(o) if o in cats else -2
            return (self.codes != c) if neg else (self.codes == c)
        raise Inconclusive("categorical comparison with " + type(o).__name__)

    def __eq__(self, o):
        return self._cmp(o, False)

    def __ne__(self, o):
        return self._cmp(o, True)

    __hash__ = None

    def __iter__(self):
        return iter(self.to_real())


def _is_opaque(col):
    return not isinstance(col, (SArr, SCat))


def as_col(x, n=None, dtype=None):
    """normalise anything into a column: SArr | SCat | concrete numpy array (non numeric)"""
    if isinstance(x, SSeries):
        x = x._col
    if isinstance(x, (SCat,)):
        return x
    if isinstance(x, SArr):
        if dtype is not None and _np.dtype(dtype) != x.dtype:
            return x.astype(dtype)
        return x
    if isinstance(x, _pd.Series):
        x = x.array if isinstance(x.dtype, _pd.CategoricalDtype) else x.to_numpy()
    if isinstance(x, _pd.Categorical):
        return SCat(SArr(_np.asarray(x.codes).tolist(), x.codes.dtype), x.categories, x.ordered)
    if isinstance(x, _pd.Index):
        x = x.to_numpy()
    if isinstance(x, (list, tuple, range)) or hasattr(x, "__sarr__"):
        x = list(x) if not hasattr(x, "__sarr__") else x.__sarr__()
        if isinstance(x, SArr):
            return x
        if _b_any(is_sym(v) for v in x):
            return SArr([symnp._py(v) for v in x], dtype)
        x = _np.array(x, dtype=dtype) if len(x) or dtype is not None else _np.array([], dtype=dtype or float)
    if isinstance(x, _np.ndarray):
        if x.dtype.kind in "iufb" and x.ndim == 1:
            r = SArr(x.tolist(), x.dtype)
            return r.astype(dtype) if dtype is not None and _np.dtype(dtype) != x.dtype else r
        if x.dtype.kind in "US" and x.ndim == 1:
            return _np.asarray(x, dtype=object) if x.dtype.kind == "U" else x
        return x
    if hasattr(x, "dtype") and hasattr(x, "__len__") and not isinstance(x, (str, bytes)):
        return as_col(_np.asarray(x), n, dtype)
    # scalar broadcast
    if n is None:
        raise TypeError(f"cannot make a column from {type(x)}")
    if is_sym(x) or isinstance(x, (int, float, bool)) and not isinstance(x, str):
        return SArr([x] * n, dtype)
    return _np.array([x] * n, dtype=object)


def col_len(c):
    return len(c)


def col_dtype(c):
    if isinstance(c, (SArr, SCat)):
        return c.dtype
    return _pd.Series(c).dtype if c.dtype.kind == "O" else c.dtype


def col_take(c, idx):
    """idx: list of concrete ints"""
    if isinstance(c, SArr):
        its = c.items
        return SArr([its[i] for i in idx], c.dtype)
    if isinstance(c, SCat):
        return SCat(col_take(c.codes, idx), c.categories, c.ordered)
    return c[_np.array(idx, dtype=_np.intp)] if len(idx) else c[:0]


def col_take_sym(c, pos):
    """pos: SArr of (possibly symbolic) positions, already known in range"""
    if isinstance(c, SArr):
        n = len(c.items)
        out = []
        for p in pos.items:
            if isinstance(p, SInt):
                if not n:
                    raise IndexError("positional indexers are out-of-bounds")
                if not bool(and_(p >= -n, p < n)):
                    raise IndexError("positional indexers are out-of-bounds")
                out.append(_sel(c.items, ite(p < 0, p + n, p)))
            else:
                out.append(c.items[p])
        return SArr(out, c.dtype)
    if isinstance(c, SCat):
        return SCat(col_take_sym(c.codes, pos), c.categories, c.ordered)
    return c[_np.array([concretize(p) for p in pos.items], dtype=_np.intp)] if len(pos.items) else c[:0]


def col_concat(cols):
    cols = [c for c in cols]
    if _b_all(isinstance(c, SArr) for c in cols):
        return symnp.concatenate(cols) if cols else SArr([], float)
    if _b_all(isinstance(c, SCat) for c in cols):
        c0 = cols[0]
        if _b_all(list(c.categories) == list(c0.categories) for c in cols):
            return SCat(symnp.concatenate([c.codes for c in cols]), c0.categories, c0.ordered)
    # mixed: fall back to objects
    real = []
    for c in cols:
        if isinstance(c, SArr):
            real.append(c.to_real())
        elif isinstance(c, SCat):
            real.append(_np.asarray(c.to_real().astype(object)))
        else:
            real.append(_np.asarray(c, dtype=object))
    return _np.concatenate(real) if real else _np.array([], dtype=object)


def col_real(c):
    if isinstance(c, SArr):
        return c.to_real()
    if isinstance(c, SCat):
        return c.to_real()
    return c


def col_concrete(c):
    if isinstance(c, (SArr, SCat)):
        return c.concrete()
    return True


def col_copy(c):
    return c.copy()


def col_eval(m, c):
    from .symcore import eval_value
    if isinstance(c, (SArr, SCat)):
        return c.__symeval__(m)
    return [x.decode() if isinstance(x, bytes) else (x.item() if isinstance(x, _np.generic) else x) for x in c.tolist()]


# ---------------------------------------------------------------------------
# index helper: None == RangeIndex(0..n)
# ---------------------------------------------------------------------------
class SIndex:
    """row labels of an SFrame/SSeries (integer labels, possibly symbolic)"""

    is_range = False   # True when pandas would represent these labels as a RangeIndex (slice of a default index)

    def __init__(self, arr, name=None):
        self.arr = arr if isinstance(arr, SArr) else _A(arr)
        self.name = name

    def __len__(self):
        return len(self.arr)

    def __getitem__(self, k):
        r = self.arr[k]
        return SIndex(r) if isinstance(r, SArr) else r

    def __iter__(self):
        return iter(self.arr)

    def __sarr__(self):
        return self.arr

    @property
    def values(self):
        return self.arr

    def to_numpy(self, *a, **k):
        return self.arr

    def tolist(self):
        return self.arr.tolist()

    def __eq__(self, o):
        return self.arr == (o.arr if isinstance(o, SIndex) else o)

    __hash__ = None

    def __symeval__(self, m):
        return self.arr.__symeval__(m)


class _SeriesLevelGroupBy:
    """Series.groupby(level=0) over a concrete label index with (possibly symbolic) values: groups are the distinct labels,
    sorted when sort=True (the pandas default), otherwise in order of first appearance"""

    def __init__(self, ser, sort):
        labels = list(ser._index)
        keys = []
        for x in labels:
            if x not in keys:
                keys.append(x)
        if sort:
            keys = sorted(keys)
        self.ser, self.keys = ser, keys
        self.groups_pos = {k: [i for i, x in enumerate(labels) if x == k] for k in keys}

    def _agg(self, f):
        items = self.ser._col.items
        return SSeries(_col=SArr([f([items[i] for i in self.groups_pos[k]]) for k in self.keys], self.ser._col.dtype),
                       _index=_pd.Index(self.keys, name=self.ser._index.name), name=self.ser.name)

    def first(self): return self._agg(lambda xs: xs[0])
    def last(self): return self._agg(lambda xs: xs[-1])
    def sum(self): return self._agg(lambda xs: ssum(xs))
    def max(self): return self._agg(lambda xs: symnp.SArr(xs, self.ser._col.dtype).max())
    def min(self): return self._agg(lambda xs: symnp.SArr(xs, self.ser._col.dtype).min())

    def __getattr__(self, name):
        raise Inconclusive(f"Series.groupby(level=0).{name}")


class _RangeIndexMeta(type):
    def __instancecheck__(cls, o):
        return isinstance(o, _pd.RangeIndex) or (isinstance(o, SIndex) and o.is_range)

    def __call__(cls, *a, **kw):
        return _pd.RangeIndex(*a, **kw)


class RangeIndex(metaclass=_RangeIndexMeta):
    """pd.RangeIndex as seen by the code under test: real range indexes and model indexes obtained by slicing a default index"""


def _mk_index(index, n):
    if index is None:
        return None
    if isinstance(index, SIndex):
        return index
    if isinstance(index, _pd.RangeIndex) and index.start == 0 and index.step == 1 and len(index) == n:
        return None
    if isinstance(index, _pd.Index):
        if index.dtype.kind in "iu":
            return SIndex(SArr(index.tolist(), index.dtype))
        return index  # opaque (string labels etc.)
    if isinstance(index, (SArr, _np.ndarray, list, range)):
        a = as_col(index)
        if isinstance(a, SArr):
            return SIndex(a)
        return _pd.Index(a)
    raise TypeError(f"unsupported index {type(index)}")


def _index_arr(index, n):
    if index is None:
        return SArr(list(range(n)), "int64")
    if isinstance(index, SIndex):
        return index.arr
    return index


# ---------------------------------------------------------------------------
# Series
# ---------------------------------------------------------------------------
class SSeries:
    __array_ufunc__ = None
    __hash__ = None

    def __init__(self, data=None, index=None, name=None, dtype=None, _col=None, _index=None):
        if _col is not None:
            self._col = _col
            self._index = _index
            self.name = name
            return
        if isinstance(data, SSeries):
            self._col, self._index, self.name = data._col, data._index, (name if name is not None else data.name)
            if dtype is not None:
                self._col = as_col(self._col, dtype=dtype)
            if index is not None:
                self._index = _mk_index(index, len(self._col))
            return
        if isinstance(data, dict):
            index = list(data.keys()) if index is None else index
            data = list(data.values())
        if data is None:
            data = []
        if isinstance(data, _pd.Series) and index is None:
            index = data.index
            name = data.name if name is None else name
        n = len(index) if index is not None and not hasattr(data, "__len__") else None
        self._col = as_col(data, n=n, dtype=dtype)
        self._index = _mk_index(index, len(self._col))
        self.name = name

    # -- conversion ---------------------------------------------------------
    def concrete(self):
        return col_concrete(self._col) and (not isinstance(self._index, SIndex) or self._index.arr.concrete())

    def to_real(self):
        idx = self._index
        if isinstance(idx, SIndex):
            idx = _pd.Index(idx.arr.to_real(), name=idx.name)
        return _pd.Series(col_real(self._col), index=idx, name=self.name)

    def groupby(self, by=None, level=None, sort=True, **kw):
        if by is None and level == 0 and isinstance(self._index, _pd.Index) and isinstance(self._col, SArr):
            return _SeriesLevelGroupBy(self, sort)
        if self.concrete():
            return wrap(self.to_real().groupby(by=unwrap(by), level=level, sort=sort, **kw))
        raise Inconclusive("Series.groupby form not modelled")

    def duplicated(self, keep="first"):
        items = self._col.codes.items if isinstance(self._col, SCat) else _A(self._col).items
        n = len(items)
        out = []
        for i in range(n):
            others = range(i) if keep == "first" else range(i + 1, n)
            out.append(or_(*[items[i] == items[j] for j in others]))
        return SSeries(_col=SArr(out, bool), _index=self._index)

    def drop_duplicates(self, keep="first", **kw):
        return self[~self.duplicated(keep)]

    def __getattr__(self, name):
        if name.startswith("_"):
            raise AttributeError(name)
        if self.concrete():
            attr = getattr(self.to_real(), name)
            if callable(attr):
                def f(*a, **kw):
                    return wrap(attr(*[unwrap(x) for x in a], **{k: unwrap(v) for k, v in kw.items()}))
                return f
            return wrap(attr)
        raise AttributeError(f"Series.{name} on symbolic data is not modelled (shim)")

    def __symeval__(self, m):
        return col_eval(m, self._col)

    def __sarr__(self):
        if isinstance(self._col, SArr):
            return self._col
        if isinstance(self._col, SCat):
            raise Inconclusive("categorical series used as an array")
        return _A(self._col) if self._col.dtype.kind in "iufb" else self._col

    def __array__(self, dtype=None, copy=None):
        return _np.asarray(col_real(self._col), dtype=dtype)

    # -- basics -------------------------------------------------------------
    def __len__(self):
        return len(self._col)

    def __iter__(self):
        if isinstance(self._col, SCat):
            if not self._col.concrete():
                raise Inconclusive("iteration over a symbolic categorical")
            return iter(self._col.to_real())
        return iter(self._col)

    @property
    def dtype(self):
        return col_dtype(self._col)

    @property
    def dtypes(self):
        return self.dtype

    @property
    def values(self):
        if isinstance(self._col, SCat):
            return self._col.to_real() if self._col.concrete() else self._col
        if isinstance(self._col, SArr):
            return self._col
        return self._col.view(CArr) if type(self._col) is _np.ndarray else self._col

    @property
    def array(self):
        return self.values

    def to_numpy(self, dtype=None, copy=False, **kw):
        v = self.values
        if isinstance(v, SArr):
            v = v.copy() if copy else v
            return v.astype(dtype) if dtype is not None else v
        return _np.array(v, dtype=dtype) if copy or dtype is not None else _np.asarray(v)

    @property
    def index(self):
        if self._index is None:
            return _pd.RangeIndex(len(self._col))
        return self._index

    @index.setter
    def index(self, v):
        self._index = _mk_index(v, len(self._col))

    @property
    def shape(self):
        return (len(self._col),)

    @property
    def size(self):
        return len(self._col)

    @property
    def empty(self):
        return len(self._col) == 0

    def copy(self, deep=True):
        return SSeries(_col=col_copy(self._col), _index=self._index, name=self.name)

    def astype(self, dtype, **kw):
        if isinstance(self._col, SArr):
            if dtype in (object, "object", "O", str, "str"):
                if self._col.concrete():
                    return wrap(self.to_real().astype(dtype))
                raise Inconclusive("astype(object) on symbolic numbers")
            return SSeries(_col=self._col.astype(dtype), _index=self._index, name=self.name)
        if isinstance(self._col, SCat):
            if dtype in (object, "object", "O", str, "str"):
                if self._col.concrete():
                    return SSeries(_col=_np.asarray(self._col.to_real().astype(object)), _index=self._index, name=self.name)
                raise Inconclusive("astype(object) on a symbolic categorical")
            if _np.dtype(dtype).kind in "iu":
                return SSeries(_col=self._col.codes.astype(dtype), _index=self._index, name=self.name)
        return wrap(self.to_real().astype(dtype, **kw))

    def to_frame(self, name=None):
        return SFrame({name or self.name or 0: self._col}, index=self._index)

    def tolist(self):
        return list(self)

    to_list = tolist

    def keys(self):
        return self.index

    def items(self):
        idx = self.index
        return zip(list(idx), list(self))

    def rename(self, name=None, **kw):
        if callable(name) or isinstance(name, dict):
            return wrap(self.to_real().rename(name, **kw))
        return SSeries(_col=self._col, _index=self._index, name=name)

    def reset_index(self, drop=False, **kw):
        if drop:
            return SSeries(_col=self._col, _index=None, name=self.name)
        raise Inconclusive("Series.reset_index(drop=False)")

    # -- element-wise -------------------------------------------------------
    def _arr(self):
        if isinstance(self._col, SArr):
            return self._col
        if isinstance(self._col, SCat):
            raise Inconclusive("arithmetic on a categorical")
        return self._col

    def _bin(self, o, op):
        if isinstance(o, SSeries):
            # pandas refuses to compare, and aligns for arithmetic, series whose labels differ
            if isinstance(self._index, _pd.Index) or isinstance(o._index, _pd.Index):
                li = list(self.index) if not isinstance(self._index, SIndex) else None
                ri = list(o.index) if not isinstance(o._index, SIndex) else None
                if li is not None and ri is not None and li != ri:
                    if op in ("__eq__", "__ne__", "__lt__", "__le__", "__gt__", "__ge__"):
                        raise ValueError("Can only compare identically-labeled Series objects")
                    raise Inconclusive("arithmetic between differently labelled series (alignment) is not modelled")
            o = o._arr()
        a = self._arr()
        if not isinstance(a, SArr):
            if isinstance(o, (SArr, SInt, SReal, SBool)):
                raise Inconclusive("object column combined with symbolic data")
            return wrap(getattr(self.to_real(), op)(unwrap(o)))
        r = getattr(a, op)(o)
        if r is NotImplemented:
            return r
        return SSeries(_col=r, _index=self._index, name=self.name)

    def __add__(self, o): return self._bin(o, "__add__")
    def __radd__(self, o): return self._bin(o, "__radd__")
    def __sub__(self, o): return self._bin(o, "__sub__")
    def __rsub__(self, o): return self._bin(o, "__rsub__")
    def __mul__(self, o): return self._bin(o, "__mul__")
    def __rmul__(self, o): return self._bin(o, "__rmul__")
    def __truediv__(self, o): return self._bin(o, "__truediv__")
    def __rtruediv__(self, o): return self._bin(o, "__rtruediv__")
    def __floordiv__(self, o): return self._bin(o, "__floordiv__")
    def __mod__(self, o): return self._bin(o, "__mod__")
    def __lt__(self, o): return self._bin(o, "__lt__")
    def __le__(self, o): return self._bin(o, "__le__")
    def __gt__(self, o): return self._bin(o, "__gt__")
    def __ge__(self, o): return self._bin(o, "__ge__")
    def __eq__(self, o):
        if isinstance(self._col, SCat):
            oc = o._col if isinstance(o, SSeries) else o
            if isinstance(oc, SCat) and list(oc.categories) == list(self._col.categories):
                return SSeries(_col=self._col.codes == oc.codes, _index=self._index, name=self.name)
            if self._col.concrete():
                return wrap(self.to_real() == unwrap(o))
            raise Inconclusive("categorical comparison")
        return self._bin(o, "__eq__")
    def __ne__(self, o): return self._bin(o, "__ne__")
    def __and__(self, o): return self._bin(o, "__and__")
    def __rand__(self, o): return self._bin(o, "__rand__")
    def __or__(self, o): return self._bin(o, "__or__")
    def __ror__(self, o): return self._bin(o, "__ror__")
    def __invert__(self): return SSeries(_col=~self._arr(), _index=self._index, name=self.name)
    def __neg__(self): return SSeries(_col=-self._arr(), _index=self._index, name=self.name)
    def __abs__(self): return SSeries(_col=abs(self._arr()), _index=self._index, name=self.name)

    def _iop(self, o, op):
        r = self._bin(o, op)
        self._col = r._col.astype(self._col.dtype) if isinstance(r._col, SArr) and isinstance(self._col, SArr) and r._col.dtype != self._col.dtype else r._col
        if self._owner is not None:
            self._owner[0]._cols[self._owner[1]] = self._col
        return self

    _owner = None

    def __isub__(self, o): return self._iop(o, "__sub__")
    def __iadd__(self, o): return self._iop(o, "__add__")
    def __imul__(self, o): return self._iop(o, "__mul__")

    def __bool__(self):
        raise ValueError("The truth value of a Series is ambiguous.")

    # -- reductions -----------------------------------------------------------
    def any(self, *a, **k): return self._arr().any() if isinstance(self._col, SArr) else builtins.bool(self.to_real().any())
    def all(self, *a, **k): return self._arr().all() if isinstance(self._col, SArr) else builtins.bool(self.to_real().all())
    def sum(self, *a, **k): return self._arr().sum()
    def min(self, *a, **k): return self._arr().min()
    def max(self, *a, **k): return self._arr().max()
    def mean(self, *a, **k): return self._arr().mean()

    def unique(self):
        if isinstance(self._col, SArr):
            # order of first appearance (pandas), forks on equalities
            out = []
            for x in self._col.items:
                if not _b_any(builtins.bool(x == y) for y in out):
                    out.append(x)
            return SArr(out, self._col.dtype)
        return wrap(self.to_real().unique())

    def isin(self, vals):
        if isinstance(self._col, SArr):
            vals = list(vals)
            return SSeries(_col=SArr([or_(*[x == v for v in vals]) for x in self._col.items], bool), _index=self._index, name=self.name)
        return wrap(self.to_real().isin(vals))

    def isnull(self):
        if isinstance(self._col, SArr):
            return SSeries(_col=symnp.isnan(self._col) if self._col.dtype.kind == "f" else SArr([False] * len(self._col), bool),
                           _index=self._index, name=self.name)
        return wrap(self.to_real().isnull())

    isna = isnull

    def searchsorted(self, v, side="left"):
        return symnp.searchsorted(self._arr(), v, side)

    # -- selection ------------------------------------------------------------
    @property
    def iloc(self):
        return _ILoc(self)

    @property
    def loc(self):
        return _Loc(self)

    def _rows(self, idx):
        return SSeries(_col=col_take(self._col, idx), _index=_take_index(self._index, idx, len(self._col)), name=self.name)

    def __getitem__(self, k):
        if isinstance(k, SSeries):
            k = k._col
        if isinstance(k, SArr) and k.dtype.kind == "b" or (isinstance(k, _np.ndarray) and k.dtype.kind == "b"):
            return self._rows(_mask_positions(k, len(self._col)))
        if isinstance(k, slice):
            return self._rows(list(range(len(self._col)))[_cslice(k)])
        # label lookup
        if self._index is None:
            if isinstance(k, (int, _np.integer)):
                return self._col[k] if not isinstance(self._col, SCat) else self._col.to_real()[k]
            if isinstance(k, SInt):
                return self._arr()[k]
        if self.concrete() or not isinstance(self._index, SIndex):
            if isinstance(self._col, SArr) and not isinstance(self._index, SIndex):
                # concrete label index over (possibly symbolic) values
                pos = self.index.get_loc(k)
                return self._col.items[pos] if isinstance(pos, (int, _np.integer)) else self._rows(list(_np.arange(len(self._col))[pos]))
            return wrap(self.to_real()[unwrap(k)])
        raise Inconclusive("Series label lookup on a symbolic index")

    def get(self, k, default=None):
        try:
            return self[k]
        except KeyError:
            return default

    def __contains__(self, k):
        return k in self.index

    def __setitem__(self, k, v):
        if isinstance(k, SSeries):
            k = k._col
        if isinstance(self._col, SArr):
            self._col[k] = v._col if isinstance(v, SSeries) else v
            return
        raise Inconclusive("Series.__setitem__ on a non-numeric column")

    @property
    def cat(self):
        if not isinstance(self._col, SCat):
            raise AttributeError("Can only use .cat accessor with a 'category' dtype")
        return _CatAccessor(self)

    @property
    def str(self):
        return self.to_real().str

    def head(self, n=5):
        return self._rows(list(range(_b_min(n, len(self._col)))))

    def equals(self, o):
        raise Inconclusive("Series.equals")


class _CatAccessor:
    def __init__(self, s):
        self.s = s

    @property
    def codes(self):
        return SSeries(_col=self.s._col.codes, _index=self.s._index, name=self.s.name)

    @property
    def categories(self):
        return self.s._col.categories

    @property
    def ordered(self):
        return self.s._col.ordered


def _cslice(k):
    return slice(None if k.start is None else concretize(k.start), None if k.stop is None else concretize(k.stop),
                 None if k.step is None else concretize(k.step))


def _mask_positions(mask, n):
    """positions selected by a boolean mask (forks on symbolic bits)"""
    its, _ = _tolist(mask)
    if len(its) != n:
        raise IndexError(f"Item wrong length {len(its)} instead of {n}.")
    return [i for i, m in enumerate(its) if builtins.bool(m)]


def _take_index(index, idx, n):
    if index is None:
        if idx == list(range(len(idx))) and len(idx) == n:
            return None
        return SIndex(SArr(list(idx), "int64"))
    if isinstance(index, SIndex):
        return SIndex(col_take(index.arr, idx), index.name)
    return index[_np.array(idx, dtype=_np.intp)] if len(idx) else index[:0]


# ---------------------------------------------------------------------------
# DataFrame
# ---------------------------------------------------------------------------
class SFrame:
    __array_ufunc__ = None
    __hash__ = None

    def __init__(self, data=None, index=None, columns=None, dtype=None, copy=None):
        self._cols = {}
        self._index = None
        if isinstance(data, SFrame):
            self._cols = dict(data._cols)
            self._index = data._index
            if columns is not None:
                self._cols = {c: self._cols[c] for c in columns}
            return
        if isinstance(data, _pd.DataFrame):
            for c in data.columns:
                self._cols[c] = as_col(data[c])
            self._index = _mk_index(data.index, len(data))
            if columns is not None:
                self._cols = {c: self._cols[c] for c in columns}
            return
        if data is None:
            data = {}
        if isinstance(data, (list, tuple)) and not len(data):
            data = {}
        if isinstance(data, SArr) and data.ndim == 2 or isinstance(data, _np.ndarray) and data.ndim == 2:
            arr = _A(data)
            nr, nc = arr.shape
            names = list(columns) if columns is not None else list(range(nc))
            data = {names[j]: SArr([arr.items[i * nc + j] for i in range(nr)], arr.dtype) for j in range(nc)}
            columns = None
        if not hasattr(data, "items"):
            raise Inconclusive(f"DataFrame constructor from {type(data)}")
        n = None
        for k, v in data.items():
            if hasattr(v, "__len__") and not isinstance(v, (str, bytes)):
                n = len(v)
                break
        if n is None and index is not None:
            n = len(index)
        for k, v in data.items():
            if isinstance(v, SSeries) and self._index is None and index is None and v._index is not None:
                self._index = v._index
            self._cols[k] = as_col(v, n=n if n is not None else 0)
        if columns is not None:
            cols = {}
            for c in columns:
                if c in self._cols:
                    cols[c] = self._cols[c]
                else:
                    cols[c] = _np.array([_np.nan] * (n or 0), dtype=object) if n else SArr([], "float64") if False else _np.array([], dtype=object)
            self._cols = cols
        lens = {len(c) for c in self._cols.values()}
        if len(lens) > 1:
            raise ValueError("All arrays must be of the same length")
        if index is not None:
            nrows = lens.pop() if lens else len(index)
            if len(index) != nrows:
                raise ValueError(f"Length of values ({nrows}) does not match length of index ({len(index)})")
            self._index = _mk_index(index, nrows)

    # -- conversion ---------------------------------------------------------
    def concrete(self):
        return _b_all(col_concrete(c) for c in self._cols.values()) and \
            (not isinstance(self._index, SIndex) or self._index.arr.concrete())

    def to_real(self):
        idx = self._index
        if isinstance(idx, SIndex):
            idx = _pd.Index(idx.arr.to_real(), name=idx.name)
        if not self._cols:
            return _pd.DataFrame(index=idx)
        df = _pd.DataFrame({k: col_real(c) for k, c in self._cols.items()})
        if idx is not None:
            df.index = idx
        return df

    def __getattr__(self, name):
        if name.startswith("_"):
            raise AttributeError(name)
        cols = self.__dict__.get("_cols", {})
        if name in cols:
            return self[name]
        if self.concrete():
            attr = getattr(self.to_real(), name)
            if callable(attr):
                def f(*a, **kw):
                    return wrap(attr(*[unwrap(x) for x in a], **{k: unwrap(v) for k, v in kw.items()}))
                return f
            return wrap(attr)
        raise AttributeError(f"DataFrame.{name} on symbolic data is not modelled (shim)")

    def __symeval__(self, m):
        out = {str(k): col_eval(m, c) for k, c in self._cols.items()}
        out["__index__"] = col_eval(m, _index_arr(self._index, len(self))) if not isinstance(self._index, _pd.Index) else list(self._index)
        return out

    # -- basics ---------------------------------------------------------------
    def __len__(self):
        for c in self._cols.values():
            return len(c)
        if self._index is not None:
            return len(self._index)
        return 0

    @property
    def columns(self):
        return _pd.Index(list(self._cols.keys()))

    @columns.setter
    def columns(self, names):
        names = list(names)
        assert len(names) == len(self._cols)
        self._cols = dict(zip(names, self._cols.values()))

    def keys(self):
        return self.columns

    def __iter__(self):
        return iter(list(self._cols.keys()))

    def __contains__(self, k):
        return k in self._cols

    def items(self):
        return [(k, self[k]) for k in list(self._cols)]

    @property
    def dtypes(self):
        return _pd.Series({k: col_dtype(c) for k, c in self._cols.items()}, dtype=object)

    @property
    def shape(self):
        return (len(self), len(self._cols))

    @property
    def empty(self):
        return len(self) == 0 or not self._cols

    @property
    def index(self):
        if self._index is None:
            return _pd.RangeIndex(len(self))
        return self._index

    @index.setter
    def index(self, v):
        if len(v) != len(self):
            raise ValueError(f"Length mismatch: Expected axis has {len(self)} elements, new values have {len(v)} elements")
        if isinstance(v, _pd.RangeIndex) and v.start == 0 and v.step == 1:
            self._index = None
        else:
            self._index = _mk_index(v, len(self))

    @property
    def values(self):
        cols = list(self._cols.values())
        if _b_all(isinstance(c, SArr) for c in cols):
            n = len(self)
            return SArr([c.items[i] for i in range(n) for c in cols], symnp._np.result_type(*[c.dtype for c in cols]) if cols else float,
                        (n, len(cols)))
        return self.to_real().values

    def to_numpy(self, *a, **k):
        return self.values

    def copy(self, deep=True):
        r = SFrame()
        r._cols = {k: col_copy(c) for k, c in self._cols.items()}
        r._index = self._index
        return r

    def head(self, n=5):
        return self._rows(list(range(_b_min(n, len(self)))))

    def iterrows(self):
        labels = list(_index_arr(self._index, len(self))) if not isinstance(self._index, _pd.Index) else list(self._index)
        for i, lab in enumerate(labels):
            row = _Row({k: (c.items[i] if isinstance(c, SArr) else (c.to_real()[i] if isinstance(c, SCat) else c[i])) for k, c in self._cols.items()})
            yield lab, row

    def to_csv(self, *a, **kw):
        # stub E9: text rendering is not a subject; rows written to a stream are recorded for the harness
        target = a[0] if a else kw.get("path_or_buf")
        if target is not None:
            CSV_LOG.append(self)
            return None
        if self.concrete():
            return self.to_real().to_csv(*a, **kw)
        return "<symbolic rows>"

    def __repr__(self):
        return f"<SFrame {len(self)}x{len(self._cols)} {list(self._cols)}>"

    def __format__(self, spec):
        return repr(self)

    # -- selection --------------------------------------------------------------
    def _rows(self, idx):
        r = SFrame()
        n = len(self)
        r._cols = {k: col_take(c, idx) for k, c in self._cols.items()}
        r._index = _take_index(self._index, idx, n)
        return r

    def _rows_sym(self, pos):
        r = SFrame()
        r._cols = {k: col_take_sym(c, pos) for k, c in self._cols.items()}
        ia = _index_arr(self._index, len(self))
        r._index = SIndex(col_take_sym(ia, pos)) if isinstance(ia, SArr) else ia[_np.array([concretize(p) for p in pos.items], dtype=_np.intp)]
        return r

    def __getitem__(self, k):
        if isinstance(k, str) or (not isinstance(k, (list, SSeries, SArr, _np.ndarray, slice, _pd.Index, _pd.Series)) and k in self._cols):
            if k not in self._cols:
                raise KeyError(k)
            s = SSeries(_col=self._cols[k], _index=self._index, name=k)
            s._owner = (self, k)
            return s
        if isinstance(k, SSeries):
            k = k._col
        if isinstance(k, _pd.Series):
            k = k.to_numpy()
        if isinstance(k, _pd.Index):
            k = list(k)
        if isinstance(k, (SArr, _np.ndarray)) and k.dtype.kind == "b":
            return self._rows(_mask_positions(k, len(self)))
        if isinstance(k, (list, _np.ndarray)):
            k = list(k)
            if k and isinstance(k[0], (bool, SBool, _np.bool_)):
                return self._rows(_mask_positions(k, len(self)))
            for c in k:
                if c not in self._cols:
                    raise KeyError(f"{c} not in index")
            r = SFrame()
            r._cols = {c: self._cols[c] for c in k}
            r._index = self._index
            return r
        if isinstance(k, slice):
            return self._rows(list(range(len(self)))[_cslice(k)])
        raise KeyError(k)

    def __setitem__(self, k, v):
        n = len(self) if self._cols or self._index is not None else None
        if isinstance(k, list):
            if isinstance(v, SFrame):
                for c, (_, s) in zip(k, v.items()):
                    self[c] = s
                return
            raise Inconclusive("multi-column assignment")
        if isinstance(v, (_pd.Series, SSeries)) or hasattr(v, "__len__") and not isinstance(v, (str, bytes)):
            c = as_col(v)
            if n is not None and len(c) != n:
                raise ValueError(f"Length of values ({len(c)}) does not match length of index ({n})")
            self._cols[k] = c
        else:
            self._cols[k] = as_col(v, n=n or 0)

    def __delitem__(self, k):
        del self._cols[k]

    def pop(self, k):
        s = self[k]
        del self._cols[k]
        return s

    def get(self, k, default=None):
        return self[k] if k in self._cols else default

    @property
    def loc(self):
        return _Loc(self)

    @property
    def iloc(self):
        return _ILoc(self)

    def drop(self, labels=None, axis=0, columns=None, **kw):
        if columns is not None:
            labels, axis = columns, 1
        if axis in (1, "columns"):
            labels = [labels] if isinstance(labels, str) else list(labels)
            r = SFrame()
            r._cols = {k: c for k, c in self._cols.items() if k not in labels}
            r._index = self._index
            return r
        raise Inconclusive("DataFrame.drop(rows)")

    def rename(self, mapper=None, columns=None, index=None, axis=None, **kw):
        if columns is None and axis in (1, "columns"):
            columns = mapper
        if columns is None:
            if self.concrete():
                return wrap(self.to_real().rename(mapper, index=index, axis=axis, **kw))
            mp = index if index is not None else mapper
            if isinstance(self._index, _pd.Index) and mp is not None:
                r = SFrame()
                r._cols = dict(self._cols)
                f = mp if callable(mp) else (lambda x: mp.get(x, x))
                r._index = _pd.Index([f(x) for x in self._index], name=self._index.name)
                return r
            raise Inconclusive("DataFrame.rename(index) on an integer/symbolic index")
        f = columns if callable(columns) else (lambda c: columns.get(c, c))
        r = SFrame()
        r._cols = {f(k): c for k, c in self._cols.items()}
        r._index = self._index
        if "_index_cols" in self.__dict__:
            r._index_cols = self._index_cols
        return r

    def reset_index(self, drop=False, **kw):
        r = SFrame()
        if not drop:
            pend = self.__dict__.get("_index_cols")
            if pend:
                for name, col in pend:
                    r._cols[name] = col
            elif self._index is not None or True:
                name = getattr(self._index, "name", None) or "index"
                r._cols[name] = _index_arr(self._index, len(self)) if not isinstance(self._index, _pd.Index) else _np.asarray(self._index)
        r._cols.update(self._cols)
        r._index = None
        return r

    def set_index(self, key, **kw):
        if self.concrete():
            return wrap(self.to_real().set_index(key, **kw))
        col = self._cols[key]
        r = SFrame()
        r._cols = {k: c for k, c in self._cols.items() if k != key}
        r._index = SIndex(col, name=key) if isinstance(col, SArr) else _pd.Index(col_real(col), name=key)
        return r

    def astype(self, dtype, **kw):
        r = self.copy()
        if isinstance(dtype, dict):
            for k, d in dtype.items():
                r._cols[k] = r[k].astype(d)._col
        else:
            for k in r._cols:
                r._cols[k] = r[k].astype(dtype)._col
        return r

    def _order(self, keys, stable_positions=None):
        """row order sorted by keys (stable insertion sort, forks on symbolic comparisons)"""
        n = len(self)
        kc = []
        for k in keys:
            c = self._cols[k]
            kc.append(c.codes.items if isinstance(c, SCat) else (c.items if isinstance(c, SArr) else list(c)))

        def less(i, j):
            for col in kc:
                a, b = col[i], col[j]
                if builtins.bool(a < b):
                    return True
                if builtins.bool(b < a):
                    return False
            return False
        out = []
        for i in range(n):
            pos = len(out)
            while pos > 0 and less(i, out[pos - 1]):
                pos -= 1
            out.insert(pos, i)
        return out

    def sort_values(self, by, ascending=True, **kw):
        by = [by] if isinstance(by, str) else list(by)
        if not ascending:
            raise Inconclusive("sort_values(descending)")
        return self._rows(self._order(by))

    def duplicated(self, subset=None, keep="first"):
        keys = list(subset) if subset is not None else list(self._cols)
        if isinstance(subset, str):
            keys = [subset]
        n = len(self)
        kc = [self._cols[k].codes.items if isinstance(self._cols[k], SCat) else _A(self._cols[k]).items for k in keys]
        out = []
        for i in range(n):
            others = range(i) if keep == "first" else range(i + 1, n)
            out.append(or_(*[and_(*[col[i] == col[j] for col in kc]) for j in others]))
        return SSeries(_col=SArr(out, bool), _index=self._index)

    def drop_duplicates(self, subset=None, keep="first", **kw):
        d = self.duplicated(subset, keep)
        return self[~d]

    def groupby(self, by, sort=True, observed=False, **kw):
        return SGroupBy(self, [by] if isinstance(by, str) else list(by), sort, observed)

    def equals(self, o):
        raise Inconclusive("DataFrame.equals")

    def _cmp(self, o, op):
        if not isinstance(o, (SFrame, _pd.DataFrame)):
            raise Inconclusive("frame comparison with non-frame")
        o = o if isinstance(o, SFrame) else SFrame(o)
        if list(o._cols) != list(self._cols) or len(o) != len(self):
            raise ValueError("Can only compare identically-labeled (both index and columns) DataFrame objects")
        r = SFrame()
        for k in self._cols:
            r._cols[k] = getattr(self[k], op)(o[k])._col
        r._index = self._index
        return r

    def __eq__(self, o): return self._cmp(o, "__eq__")
    def __ne__(self, o): return self._cmp(o, "__ne__")

    def all(self, axis=0, **kw):
        if axis is None:
            return and_(*[self[k].all() for k in self._cols])
        return _pd.Series({k: self[k].all() for k in self._cols}) if self.concrete() else SSeries(
            _col=SArr([self[k].all() for k in self._cols], bool), _index=_pd.Index(list(self._cols)))

    def __sarr__(self):
        v = self.values
        if isinstance(v, SArr):
            return v
        raise Inconclusive("non-numeric frame used as an array")

    def __array__(self, dtype=None, copy=None):
        return _np.asarray(self.to_real(), dtype=dtype)


class _Row:
    """one row of a frame (attribute and key access)"""

    def __init__(self, d):
        self.__dict__.update(d)
        self._d = d

    def __getitem__(self, k):
        return self._d[k]


class _Loc:
    def __init__(self, obj):
        self.obj = obj

    def _row_positions(self, rk):
        obj = self.obj
        n = len(obj)
        if isinstance(rk, SSeries):
            rk = rk._col
        if isinstance(rk, (SArr, _np.ndarray, list)) and len(rk) == n and (
                (hasattr(rk, "dtype") and rk.dtype.kind == "b") or (isinstance(rk, list) and n and isinstance(rk[0], (bool, SBool)))):
            return "mask", rk
        if isinstance(rk, slice):
            # label slice, end-inclusive, on an integer (possibly symbolic) index
            ia = _index_arr(obj._index, n)
            if not isinstance(ia, SArr):
                raise Inconclusive("loc slice on a non-integer index")
            lo, hi = rk.start, rk.stop
            pos = [i for i, lab in enumerate(ia.items)
                   if builtins.bool(and_(True if lo is None else lab >= lo, True if hi is None else lab <= hi))]
            return "pos", pos
        if isinstance(rk, SIndex):
            rk = rk.arr
        elif isinstance(rk, _pd.Index) and rk.dtype.kind in "iu":
            rk = list(rk)
        if isinstance(rk, (SArr, _np.ndarray, list)) and (not hasattr(rk, "dtype") or rk.dtype.kind in "iu"):
            # list of integer labels: each is looked up in the (integer) index; a missing label is a KeyError as in pandas, a
            # label that occurs several times selects all of its rows
            ia = _index_arr(obj._index, n)
            labs = ia.items if isinstance(ia, SArr) else list(ia)
            pos = []
            for lab in (rk.items if isinstance(rk, SArr) else list(rk)):
                hits = [i for i, x in enumerate(labs) if builtins.bool(x == lab)]
                if not hits:
                    raise KeyError(f"{lab} not in index")
                pos.extend(hits)
            return "pos", pos
        raise Inconclusive(f"loc with {type(rk)}")

    def __getitem__(self, k):
        obj = self.obj
        if isinstance(obj, SSeries) and isinstance(obj._index, _pd.Index) and not isinstance(k, (SSeries, SArr, slice, tuple)):
            pos = obj._index.get_loc(k)   # label lookup on a concrete (string) index
            c = obj._col
            return c.items[pos] if isinstance(c, SArr) else (c.to_real()[pos] if isinstance(c, SCat) else c[pos])
        if isinstance(k, tuple):
            rk, ck = k
            kind, sel = self._row_positions(rk)
            if kind == "mask":
                if isinstance(obj, SFrame):
                    col = obj._cols[ck]
                    if isinstance(col, SArr):
                        return SSeries(_col=col[sel if isinstance(sel, SArr) else _A(sel)], name=ck)
                    if isinstance(col, SCat):
                        return SSeries(_col=SCat(col.codes[sel if isinstance(sel, SArr) else _A(sel)], col.categories, col.ordered), name=ck)
                    return obj[ck]._rows(_mask_positions(sel, len(obj)))
            if kind == "pos" and isinstance(obj, SFrame):
                sub = obj._rows(sel)
                return sub[ck]
            raise Inconclusive("loc[rows, cols] getter form")
        kind, sel = self._row_positions(k)
        if kind == "mask":
            return obj[sel] if isinstance(obj, SFrame) else obj[sel]
        return obj._rows(sel)

    def __setitem__(self, k, v):
        obj = self.obj
        if not isinstance(k, tuple) or not isinstance(obj, SFrame):
            raise Inconclusive("loc setter form")
        rk, ck = k
        kind, sel = self._row_positions(rk)
        if kind != "mask":
            raise Inconclusive("loc[slice, col] = ...")
        col = obj._cols[ck]
        if isinstance(v, SSeries):
            v = v._col
        if isinstance(col, SArr):
            col = col.copy()
            col[sel if isinstance(sel, (SArr, _np.ndarray)) else _A(sel)] = v
            obj._cols[ck] = col
            return
        if isinstance(col, SCat):
            if isinstance(v, SCat):
                v = v.codes
            codes = col.codes.copy()
            codes[sel if isinstance(sel, (SArr, _np.ndarray)) else _A(sel)] = v
            obj._cols[ck] = SCat(codes, col.categories, col.ordered)
            return
        # opaque column: positions must be concrete
        pos = _mask_positions(sel, len(obj))
        col = col.copy()
        vals = list(v) if hasattr(v, "__len__") and not isinstance(v, str) else [v] * len(pos)
        for p, x in zip(pos, vals):
            col[p] = x
        obj._cols[ck] = col


class _ILoc:
    def __init__(self, obj):
        self.obj = obj

    def __getitem__(self, k):
        obj = self.obj
        n = len(obj)
        if isinstance(k, tuple):
            raise Inconclusive("iloc[rows, cols]")
        if isinstance(k, slice):
            r = obj._rows(list(range(n))[_cslice(k)])
            if (obj._index is None or (isinstance(obj._index, SIndex) and obj._index.is_range)) and isinstance(r._index, SIndex):
                r._index.is_range = True   # a slice of a range index is a range index
            return r
        if isinstance(k, SSeries):
            k = k._col
        if hasattr(k, "__sarr__"):
            k = k.__sarr__()
        if isinstance(k, SArr):
            if k.dtype.kind == "b":
                return obj._rows(_mask_positions(k, n))
            if k.concrete():
                return obj._rows([i if i >= 0 else i + n for i in (builtins.int(x) for x in k.items)])
            if isinstance(obj, SSeries):
                ia = _index_arr(obj._index, n)
                return SSeries(_col=col_take_sym(obj._col, k), _index=SIndex(col_take_sym(ia, k)) if isinstance(ia, SArr) else None, name=obj.name)
            return obj._rows_sym(k)
        if isinstance(k, (list, _np.ndarray)):
            ks = list(k)
            if ks and isinstance(ks[0], (bool, _np.bool_)):
                return obj._rows(_mask_positions(ks, n))
            for i in ks:
                if not -n <= i < n:
                    raise IndexError("positional indexers are out-of-bounds")
            return obj._rows([builtins.int(i) if i >= 0 else builtins.int(i) + n for i in ks])
        if isinstance(k, SInt):
            k = concretize(k)
        if isinstance(k, (int, _np.integer)):
            if not -n <= k < n:
                raise IndexError("single positional indexer is out-of-bounds")
            if isinstance(obj, SSeries):
                c = obj._col
                return c.items[k] if isinstance(c, SArr) else (c.to_real()[k] if isinstance(c, SCat) else c[k])
            raise Inconclusive("frame.iloc[int]")
        raise Inconclusive(f"iloc with {type(k)}")


# ---------------------------------------------------------------------------
# groupby
# ---------------------------------------------------------------------------
class SGroupBy:
    def __init__(self, frame, keys, sort=True, observed=False, cols=None):
        self.frame, self.keys, self.sort, self.observed, self.cols = frame, keys, sort, observed, cols
        self._groups = None

    def _keycols(self):
        out = []
        for k in self.keys:
            c = self.frame._cols[k]
            out.append(c.codes.items if isinstance(c, SCat) else (c.items if isinstance(c, SArr) else list(c)))
        return out

    def groups_(self):
        """list of (representative row, [row positions]) in output order"""
        if self._groups is not None:
            return self._groups
        f = self.frame
        kc = self._keycols()
        n = len(f)
        # drop rows with missing categorical keys (code -1), as pandas does
        rows = []
        for i in range(n):
            miss = False
            for k, col in zip(self.keys, kc):
                if isinstance(f._cols[k], SCat) and builtins.bool(col[i] < 0):
                    miss = True
            if not miss:
                rows.append(i)
        order = [i for i in f._order(self.keys) if i in set(rows)] if self.sort else rows
        groups = []
        for i in order:
            for g in (groups[-1:] if self.sort else groups):
                j = g[0]
                if builtins.bool(and_(*[col[i] == col[j] for col in kc])):
                    g[1].append(i)
                    break
            else:
                groups.append((i, [i]))
        if not self.sort:
            pass
        for g in groups:
            g[1].sort()
        # unobserved categories (observed=False) would add empty groups: only categorical keys
        if not self.observed and len(self.keys) == 1 and isinstance(f._cols[self.keys[0]], SCat):
            cat = f._cols[self.keys[0]]
            present = {concretize(kc[0][g[0]]) for g in groups}
            extra = [c for c in range(len(cat.categories)) if c not in present]
            if extra:
                self._empty_codes = extra
        self._groups = groups
        return groups

    def __getitem__(self, cols):
        return SGroupBy(self.frame, self.keys, self.sort, self.observed, cols)

    def _value_cols(self):
        if self.cols is None:
            return [c for c in self.frame._cols if c not in self.keys]
        return [self.cols] if isinstance(self.cols, str) else list(self.cols)

    def _key_value(self, k, row):
        c = self.frame._cols[k]
        if isinstance(c, SCat):
            return c.categories[concretize(c.codes.items[row])]
        if isinstance(c, SArr):
            return c.items[row]
        return c[row]

    def __iter__(self):
        for rep, rows in self.groups_():
            key = tuple(self._key_value(k, rep) for k in self.keys)
            yield (key[0] if len(key) == 1 else key), self._subframe(rows)

    def _subframe(self, rows):
        sub = self.frame._rows(rows)
        if self.cols is not None:
            sub = sub[self.cols if not isinstance(self.cols, str) else [self.cols]]
            if isinstance(self.cols, str):
                return sub[self.cols]
        return sub

    def get_group(self, name):
        for key, sub in self:
            if key == name or (isinstance(name, tuple) and len(name) == 1 and key == name[0]):
                return sub
        raise KeyError(name)

    def size(self):
        gs = self.groups_()
        idx = self._result_index(gs)
        s = SSeries(_col=SArr([len(rows) for _, rows in gs], "int64"), _index=None)
        s._index_cols = idx
        if len(self.keys) == 1:
            labs = idx[0][1]
            s._index = _pd.Index(col_real(labs) if col_concrete(labs) else _np.arange(len(gs)), name=self.keys[0])
        return s

    def _result_index(self, gs):
        out = []
        for k in self.keys:
            c = self.frame._cols[k]
            out.append((k, col_take(c, [rep for rep, _ in gs])))
        return out

    @staticmethod
    def _agg1(col, rows, how):
        if isinstance(col, SCat):
            raise Inconclusive("aggregation of a categorical column")
        items = [col.items[i] for i in rows] if isinstance(col, SArr) else [col[i] for i in rows]
        if callable(how):
            return how(SSeries(_col=SArr(items, col.dtype)))
        if how == "sum":
            return ssum(items)
        if how in ("size", "count"):
            if how == "count" and isinstance(col, SArr) and col.dtype.kind == "f":
                return ssum([ite(symnp._isnan1(x), 0, 1) if isinstance(x, SReal) else (0 if x != x else 1) for x in items])
            return len(items)
        if how == "max":
            return symnp._reduce_minmax(items, False)
        if how == "min":
            return symnp._reduce_minmax(items, True)
        if how == "mean":
            return symnp._truediv(ssum(items), len(items))
        if how == "first":
            return items[0]
        if how == "last":
            return items[-1]
        raise Inconclusive(f"groupby aggregation {how!r}")

    @staticmethod
    def _agg_dtype(col, how):
        if how in ("size", "count"):
            return _np.dtype("int64")
        if how == "mean":
            return _np.dtype("float64")
        if how == "sum" and isinstance(col, SArr):
            k = col.dtype.kind
            return _np.dtype("int64") if k in "ib" else (_np.dtype("uint64") if k == "u" else col.dtype)
        return col.dtype if isinstance(col, SArr) else None

    def aggregate(self, spec):
        gs = self.groups_()
        f = self.frame
        r = SFrame()
        if isinstance(spec, dict):
            for colname, how in spec.items():
                col = f._cols[colname]
                r._cols[colname] = SArr([self._agg1(col, rows, how) for _, rows in gs], self._agg_dtype(col, how))
        else:
            for colname in self._value_cols():
                col = f._cols[colname]
                r._cols[colname] = SArr([self._agg1(col, rows, spec) for _, rows in gs], self._agg_dtype(col, spec))
        r._index_cols = self._result_index(gs)
        r._index = SIndex(SArr(list(range(len(gs))), "int64"))  # placeholder for the (multi)index
        return r

    agg = aggregate

    def _reduce(self, how):
        r = self.aggregate(how)
        if isinstance(self.cols, str):
            # one value column picked by name: a Series labelled by the key values
            gs = self.groups_()
            if len(self.keys) == 1:
                keyvals = [self._key_value(self.keys[0], g[0]) for g in gs]
                if _b_all(not is_sym(k) for k in keyvals):
                    return SSeries(_col=r._cols[self.cols], _index=_pd.Index(keyvals, name=self.keys[0]), name=self.cols)
            raise Inconclusive("groupby(...)[col].<reduce> with symbolic or multiple keys")
        return r

    def sum(self):
        return self._reduce("sum") if isinstance(self.cols, str) else self.aggregate("sum")

    def max(self): return self._reduce("max")
    def min(self): return self._reduce("min")
    def first(self): return self._reduce("first")
    def last(self): return self._reduce("last")

    def apply(self, func, *a, **kw):
        parts = []
        for key, sub in self:
            if isinstance(sub, SFrame):
                sub.__dict__["name"] = key
            else:
                sub.name = key
            parts.append(func(sub, *a, **kw))
        if not parts:
            return SFrame()
        return concat(parts, axis=0)


# ---------------------------------------------------------------------------
# module-level API
# ---------------------------------------------------------------------------
def wrap(x):
    if isinstance(x, _pd.DataFrame):
        return SFrame(x)
    if isinstance(x, _pd.Series):
        if x.dtype.kind in "iufb" or isinstance(x.dtype, _pd.CategoricalDtype):
            if isinstance(x.index, _pd.RangeIndex) or x.index.dtype.kind in "iu":
                return SSeries(x)
        return x
    if type(x) is _np.ndarray:
        return x.view(CArr)
    if isinstance(x, tuple):
        return tuple(wrap(y) for y in x)
    return x


def unwrap(x):
    if isinstance(x, (SFrame, SSeries)):
        return x.to_real()
    if isinstance(x, SCat):
        return x.to_real()
    if isinstance(x, SArr):
        return x.to_real()
    if isinstance(x, SIndex):
        return _pd.Index(x.arr.to_real())
    if isinstance(x, list):
        return [unwrap(y) for y in x]
    if isinstance(x, tuple):
        return tuple(unwrap(y) for y in x)
    if isinstance(x, dict):
        return {k: unwrap(v) for k, v in x.items()}
    return x


class _FrameMeta(type):
    def __call__(cls, *a, **kw):
        return SFrame(*a, **kw)

    def __instancecheck__(cls, o):
        return isinstance(o, (SFrame, _pd.DataFrame))


class DataFrame(metaclass=_FrameMeta):
    pass


class _SeriesMeta(type):
    def __call__(cls, data=None, index=None, dtype=None, name=None, **kw):
        # string-labelled series over concrete data stay real pandas (chromsizes etc.) unless values are symbolic
        try:
            return SSeries(data, index=index, name=name, dtype=dtype)
        except TypeError:
            return _pd.Series(unwrap(data), index=unwrap(index), dtype=dtype, name=name, **kw)

    def __instancecheck__(cls, o):
        return isinstance(o, (SSeries, _pd.Series))


class Series(metaclass=_SeriesMeta):
    pass


class _CatMeta(type):
    def __call__(cls, values, categories=None, ordered=None, **kw):
        if isinstance(values, SSeries):
            values = values._col
        if isinstance(values, SCat):
            if categories is None or list(categories) == list(values.categories):
                return SCat(values.codes, values.categories, values.ordered if ordered is None else ordered)
            if not values.concrete():
                # recode symbolic codes into the new category order
                old = list(values.categories)
                new = list(categories)
                mapping = [new.index(c) if c in new else -1 for c in old]
                codes = SArr([ite(x < 0, -1, _sel(mapping, x)) if isinstance(x, SInt) else (mapping[x] if x >= 0 else -1)
                              for x in values.codes.items], "int64")
                return SCat(codes, categories, builtins.bool(ordered))
            values = values.to_real()
        if isinstance(values, SArr):
            if not values.concrete():
                raise Inconclusive("Categorical over symbolic values")
            values = values.to_real()
        return as_col(_pd.Categorical(values, categories=categories, ordered=ordered, **kw))

    def __instancecheck__(cls, o):
        return isinstance(o, (SCat, _pd.Categorical))

    def from_codes(cls, codes, categories=None, ordered=None, **kw):
        if isinstance(codes, SSeries):
            codes = codes._col
        if hasattr(categories, "_col"):
            categories = categories._col
        codes = _A(codes) if not isinstance(codes, SArr) else codes
        cats = list(categories) if not isinstance(categories, _pd.Index) else categories
        ncat = len(cats)
        if codes.items and not builtins.bool(and_(*[and_(x >= -1, x < ncat) for x in codes.items])):
            raise ValueError("codes need to be between -1 and len(categories)-1")
        return SCat(codes, cats, builtins.bool(ordered))


class Categorical(metaclass=_CatMeta):
    pass


def _align_rows(frames):
    """pd.concat(axis=1) joins on the row labels (outer, first frame's order, then unseen labels): frames whose labels are equal
    position by position pass through; otherwise rows are re-ordered by label and missing rows become NaN"""
    ias = [_index_arr(f._index, len(f)) for f in frames]
    if _b_all(f._index is None for f in frames) and len({len(f) for f in frames}) == 1:
        return frames
    if not _b_all(isinstance(a, SArr) for a in ias):
        if _b_all(not isinstance(a, SArr) for a in ias) and _b_all(list(a) == list(ias[0]) for a in ias):
            return frames
        raise Inconclusive("concat(axis=1) over mixed label kinds")
    same = _b_all(len(a) == len(ias[0]) for a in ias) and _b_all(
        builtins.bool(and_(*[x == y for x, y in zip(a.items, ias[0].items)])) for a in ias[1:])
    if same:
        return frames
    labs = []
    for a in ias:
        row = []
        for x in a.items:
            if isinstance(x, SInt):
                x = concretize(x)
            row.append(builtins.int(x))
        if len(set(row)) != len(row):
            raise Inconclusive("concat(axis=1) with repeated row labels")
        labs.append(row)
    union = []
    for row in labs:
        for x in row:
            if x not in union:
                union.append(x)
    out = []
    for f, row in zip(frames, labs):
        pos = {x: i for i, x in enumerate(row)}
        g = SFrame()
        for k, c in f._cols.items():
            if _b_all(x in pos for x in union):
                g._cols[k] = col_take(c, [pos[x] for x in union])
            else:
                if not isinstance(c, SArr):
                    raise Inconclusive("concat(axis=1): missing rows in a non-numeric column")
                g._cols[k] = SArr([c.items[pos[x]] if x in pos else builtins.float("nan") for x in union], "float64")
        g._index = SIndex(SArr(union, "int64"))
        out.append(g)
    return out


def concat(objs, axis=0, ignore_index=False, **kw):
    objs = [o for o in objs if o is not None]
    if not objs:
        raise ValueError("No objects to concatenate")
    objs = [SFrame(o) if isinstance(o, _pd.DataFrame) else (SSeries(o) if isinstance(o, _pd.Series) else o) for o in objs]
    if axis in (1, "columns"):
        objs = [o.to_frame() if isinstance(o, SSeries) else o for o in objs]
        objs = _align_rows(objs)
        r = SFrame()
        n = None
        for o in objs:
            if n is not None and len(o) != n:
                raise Inconclusive("concat(axis=1) with different lengths")
            n = len(o)
            for k, c in o._cols.items():
                if k in r._cols:
                    raise Inconclusive("concat(axis=1) duplicate column")
                r._cols[k] = c
            if r._index is None:
                r._index = o._index
        return r
    if _b_all(isinstance(o, SSeries) for o in objs):
        col = col_concat([o._col for o in objs])
        idx = None
        if not ignore_index:
            idx = SIndex(symnp.concatenate([_index_arr(o._index, len(o)) for o in objs]))
        return SSeries(_col=col, _index=idx, name=objs[0].name)
    names = list(objs[0]._cols)
    for o in objs[1:]:
        for k in o._cols:
            if k not in names:
                names.append(k)
    r = SFrame()
    for k in names:
        parts = []
        for o in objs:
            if k not in o._cols:
                raise Inconclusive("concat with differing columns")
            parts.append(o._cols[k])
        r._cols[k] = col_concat(parts)
    if not ignore_index:
        ias = [_index_arr(o._index, len(o)) for o in objs]
        if _b_all(isinstance(a, SArr) for a in ias):
            r._index = SIndex(symnp.concatenate(ias))
        else:
            r._index = _pd.Index(_np.concatenate([_np.asarray(col_real(a)) for a in ias]))
    return r
