"""Replacements for a few builtins, injected into the globals of every `symcooler` module,
so that `int(np.floor(x))`, `float(s)`, `min(a, b)` keep symbolic values symbolic while
`isinstance(x, int)` keeps working."""
import builtins

import z3

from .symcore import SBool, SInt, SReal, ite, Inconclusive


class _IntType(type):
    def __instancecheck__(cls, o):
        return isinstance(o, (builtins.int, SInt))

    def __subclasscheck__(cls, c):
        return issubclass(c, builtins.int) or c is SInt

    def __eq__(cls, o):
        return o is cls or o is builtins.int

    def __hash__(cls):
        return hash(builtins.int)


class int_(metaclass=_IntType):
    def __new__(cls, x=0, *a):
        if isinstance(x, SInt):
            return x
        if isinstance(x, SBool):
            return ite(x, 1, 0)
        if isinstance(x, SReal):
            return SInt(z3.If(x.v >= 0, z3.ToInt(x.v), -z3.ToInt(-x.v)))
        if hasattr(x, "__symint__"):
            return x.__symint__(*a)
        return builtins.int(x, *a)


class _FloatType(type):
    def __instancecheck__(cls, o):
        return isinstance(o, (builtins.float, SReal))

    def __subclasscheck__(cls, c):
        return issubclass(c, builtins.float) or c is SReal

    def __eq__(cls, o):
        return o is cls or o is builtins.float

    def __hash__(cls):
        return hash(builtins.float)


class float_(metaclass=_FloatType):
    def __new__(cls, x=0.0):
        if isinstance(x, SReal):
            return x
        if isinstance(x, (SInt, SBool)):
            return SReal.of(x)
        if hasattr(x, "__symfloat__"):
            return x.__symfloat__()
        return builtins.float(x)


def _minmax(is_min):
    real = builtins.min if is_min else builtins.max

    def f(*args, **kw):
        if len(args) >= 2 and not kw and any(isinstance(a, (SInt, SReal)) for a in args):
            acc = args[0]
            for x in args[1:]:
                c = (x < acc) if is_min else (x > acc)
                acc = ite(c, x, acc) if isinstance(c, SBool) else (x if c else acc)
            return acc
        return real(*args, **kw)
    return f


def round_(x, nd=None):
    if hasattr(x, "__symround__"):
        return x.__symround__(nd)
    if isinstance(x, SInt):
        return x
    if isinstance(x, SReal):
        if nd is not None:
            raise Inconclusive("round(x, ndigits) of a symbolic real")
        # round half to even, exact reals (NaN: Python raises ValueError - not modelled, callers here never pass NaN)
        f = z3.ToInt(x.v)                      # floor
        frac = x.v - z3.ToReal(f)
        half = z3.RealVal("1/2")
        return SInt(z3.If(frac < half, f, z3.If(frac > half, f + 1, z3.If(f % 2 == 0, f, f + 1))))
    return builtins.round(x, nd) if nd is not None else builtins.round(x)


SHADOW = {"int": int_, "float": float_, "min": _minmax(True), "max": _minmax(False), "round": round_}
