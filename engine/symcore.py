"""Dynamic symbolic executor over z3 (re-execution DSE).

The code under test runs as ordinary Python on proxy values (SInt/SBool/SReal).
Every branch on a symbolic condition asks the solver which sides are feasible;
`explore` re-runs the harness once per feasible path, depth first, until no
unexplored side is left.  `prove(c)` sends pc /\\ not c to the solver: unsat on
every path == "holds for every value inside the bounds"; sat == a model, i.e. a
concrete input, which the driver replays on the real stack.
"""
from __future__ import annotations

import builtins
import fractions
import math
import time

import z3

MAX_CONCRETIZE = 64  # unwinding assertion: more feasible values than this => inconclusive


class PathAbort(BaseException):
    """Current path is infeasible / pruned (assume failed)."""


class HarnessError(BaseException):
    """the checking machinery itself failed (never a verdict about cooler)"""


class Inconclusive(BaseException):
    """The run cannot decide (solver unknown, unsupported operation, bound exhausted)."""


class _ViolationSignal(BaseException):
    def __init__(self, msg):
        self.msg = msg


class PathTimeout(BaseException):
    """one path ran longer than the per-path wall-clock budget (non-termination candidate)"""


class SplitPoint(BaseException):
    """Raised in prefix-enumeration mode when a path reaches the split depth."""


class Ctx:
    def __init__(self):
        self.cross_every = 0   # thorough tier: re-discharge every k-th obligation with cvc5
        self.reset_stats()
        self.trail = []
        self.pos = 0
        self.solver = None
        self.model = None
        self.inputs = {}
        self.labels = set()
        self.covered = {}
        self.violations = []
        self.split_depth = None
        self.timeout_ms = 60000
        self.seed = 0
        self.fresh = 0
        self.notes = []
        self.active = False

    def reset_stats(self):
        self.stats = dict(paths=0, aborted=0, decisions=0, queries=0, solver_s=0.0,
                          obligations=0, discharged=0, concretized=0, max_depth=0,
                          cross_checked=0, cross_agree=0, cross_unsupported=0, cross_s=0.0)

    # -- per path ---------------------------------------------------------
    def new_path(self):
        self.solver = z3.Solver()
        self.solver.set("timeout", self.timeout_ms)
        if self.seed:
            self.solver.set("random_seed", self.seed)
        self.pos = 0
        self.model = None
        self.inputs = {}
        self.labels = set()
        self.fresh = 0
        self.notes = []

    def fresh_name(self, base):
        self.fresh += 1
        return f"{base}!{self.fresh}"

    def get_model(self):
        """model of the last satisfiable check (from the retry solver if the incremental one had given up)"""
        return self._retry_model if getattr(self, "_retry_model", None) is not None else self.solver.model()

    def check(self, *extra):
        self._retry_model = None
        t = time.time()
        r = self.solver.check(*extra)
        self.stats["solver_s"] += time.time() - t
        self.stats["queries"] += 1
        if r == z3.unknown:
            # an incremental solver that gave up within its budget (typically non-linear real arithmetic on a loaded machine):
            # ask again from scratch with five times the budget, then with the nlsat tactic; a second unknown stays inconclusive
            why = self.solver.reason_unknown()
            self.stats["retried"] = self.stats.get("retried", 0) + 1
            for mk in (lambda: z3.Solver(), lambda: z3.Tactic("qfnra-nlsat").solver()):
                try:
                    s2 = mk()
                    s2.set("timeout", self.timeout_ms * 5)
                    s2.add(*self.solver.assertions())
                    s2.add(*extra)
                    t = time.time()
                    r = s2.check()
                    self.stats["solver_s"] += time.time() - t
                    self.stats["queries"] += 1
                except z3.Z3Exception:
                    r = z3.unknown
                if r != z3.unknown:
                    break
            if r == z3.unknown:
                raise Inconclusive(f"solver unknown: {why}")
            if r == z3.sat:
                self.model = None
                self._retry_model = s2.model()
        return r == z3.sat

    def add(self, c):
        self.solver.add(c)
        if self.model is not None:
            try:
                if not z3.is_true(self.model.eval(c, model_completion=True)):
                    self.model = None
            except z3.Z3Exception:
                self.model = None

    def ensure_model(self):
        if self.model is None:
            if not self.check():
                raise PathAbort()
            self.model = self.get_model()
        return self.model

    def fork(self, cond, payload=None):
        """Python bool for the z3 Bool `cond`; both feasible sides get explored."""
        if z3.is_true(cond):
            return True
        if z3.is_false(cond):
            return False
        cond = z3.simplify(cond)
        if z3.is_true(cond):
            return True
        if z3.is_false(cond):
            return False
        if self.pos < len(self.trail):
            d = self.trail[self.pos][0]
            self.pos += 1
            self.add(cond if d else z3.Not(cond))  # keeps a cached model honest
            return d
        if self.split_depth is not None and self.pos >= self.split_depth:
            raise SplitPoint()
        m = self.ensure_model()
        v = z3.is_true(m.eval(cond, model_completion=True))
        other = z3.Not(cond) if v else cond
        can_other = self.check(other)
        self.trail.append([v, can_other, payload])
        self.pos += 1
        self.stats["decisions"] += 1
        if self.pos > self.stats["max_depth"]:
            self.stats["max_depth"] = self.pos
        self.solver.add(cond if v else z3.Not(cond))
        return v

    def backtrack(self):
        while self.trail and not self.trail[-1][1]:
            self.trail.pop()
        if not self.trail:
            return False
        last = self.trail[-1]
        self.trail[-1] = [not last[0], False, last[2]]
        return True


CTX = Ctx()


# ---------------------------------------------------------------------------
# proxies
# ---------------------------------------------------------------------------
def _np_int_types():
    import numpy as np
    return np.integer, np.bool_, np.floating


def _e(x):
    """z3 Int/Bool expression of an int-like / bool-like value."""
    if isinstance(x, (SInt, SBool)):
        return x.e
    if isinstance(x, bool):
        return z3.BoolVal(x)
    if isinstance(x, builtins.int):
        return z3.IntVal(x)
    I, B, F = _np_int_types()
    if isinstance(x, B):
        return z3.BoolVal(builtins.bool(x))
    if isinstance(x, I):
        return z3.IntVal(builtins.int(x))
    raise TypeError(type(x))


def _ei(x):
    """as Int expression (bools become 0/1)."""
    e = _e(x)
    if z3.is_bool(e):
        return z3.If(e, z3.IntVal(1), z3.IntVal(0))
    return e


def _eb(x):
    e = _e(x)
    if not z3.is_bool(e):
        return e != 0
    return e


def _nd_operand(self, o, name):
    """symbolic scalar (op) real ndarray: numpy would try a ufunc on the proxy; route through the array model instead"""
    import numpy as _rnp
    if isinstance(o, _rnp.ndarray) and o.ndim >= 1:
        from engine import symnp
        refl = name.replace("__r", "__", 1) if name.startswith("__r") and name not in ("__rshift__",) else "__r" + name[2:]
        h = getattr(symnp.SArr(list(o.ravel().tolist()), o.dtype, o.shape if o.ndim > 1 else None), refl, None)
        if h is not None:
            return h(self)
    return NotImplemented


def _ni(f):
    def g(self, o):
        try:
            return f(self, o)
        except TypeError:
            return _nd_operand(self, o, f.__name__)
    g.__name__ = f.__name__
    return g


def _isreal(o):
    if isinstance(o, SReal):
        return True
    if isinstance(o, builtins.float):
        return True
    I, B, F = _np_int_types()
    return isinstance(o, F)


class SBool:
    __slots__ = ("e",)
    __array_ufunc__ = None

    def __init__(self, e):
        self.e = e

    def __bool__(self):
        return CTX.fork(self.e)

    @_ni
    def __and__(self, o):
        return SBool(z3.And(self.e, _eb(o)))

    __rand__ = __and__

    @_ni
    def __or__(self, o):
        return SBool(z3.Or(self.e, _eb(o)))

    __ror__ = __or__

    @_ni
    def __xor__(self, o):
        return SBool(z3.Xor(self.e, _eb(o)))

    __rxor__ = __xor__

    def __invert__(self):
        return SBool(z3.Not(self.e))

    @_ni
    def __eq__(self, o):
        return SBool(self.e == _eb(o))

    @_ni
    def __ne__(self, o):
        return SBool(self.e != _eb(o))

    # arithmetic on bools promotes to int
    def _i(self):
        return SInt(z3.If(self.e, z3.IntVal(1), z3.IntVal(0)))

    def __add__(self, o):
        return self._i() + o

    __radd__ = __add__

    def __mul__(self, o):
        return self._i() * o

    __rmul__ = __mul__

    def __sub__(self, o):
        return self._i() - o

    def __rsub__(self, o):
        return o - self._i()

    def __index__(self):
        return builtins.int(bool(self))

    __int__ = __index__
    __hash__ = None

    def __repr__(self):
        return "<SBool>"

    def __format__(self, spec):
        return "<SBool>"


class SInt:
    __slots__ = ("e",)
    __array_ufunc__ = None

    def __init__(self, e):
        self.e = e

    @_ni
    def __add__(self, o):
        if _isreal(o):
            return SReal.of(self) + o
        return SInt(self.e + _ei(o))

    __radd__ = __add__

    @_ni
    def __sub__(self, o):
        if _isreal(o):
            return SReal.of(self) - o
        return SInt(self.e - _ei(o))

    @_ni
    def __rsub__(self, o):
        if _isreal(o):
            return SReal.of(o) - self
        return SInt(_ei(o) - self.e)

    @_ni
    def __mul__(self, o):
        if _isreal(o):
            return SReal.of(self) * o
        return SInt(self.e * _ei(o))

    __rmul__ = __mul__

    @_ni
    def __floordiv__(self, o):
        if _isreal(o):
            raise Inconclusive("floor division by a real")
        return SInt(_floordiv(self.e, _ei(o)))

    @_ni
    def __rfloordiv__(self, o):
        return SInt(_floordiv(_ei(o), self.e))

    @_ni
    def __mod__(self, o):
        return SInt(_mod(self.e, _ei(o)))

    @_ni
    def __rmod__(self, o):
        return SInt(_mod(_ei(o), self.e))

    def __divmod__(self, o):
        return self // o, self % o

    def __truediv__(self, o):
        try:
            return SReal.of(self) / SReal.of(o)
        except TypeError:
            return NotImplemented

    def __rtruediv__(self, o):
        try:
            return SReal.of(o) / SReal.of(self)
        except TypeError:
            return NotImplemented

    def __pow__(self, o):
        if isinstance(o, builtins.int) and 0 <= o <= 4:
            r = 1
            for _ in range(o):
                r = r * self
            return r
        return NotImplemented

    def __neg__(self):
        return SInt(-self.e)

    def __pos__(self):
        return self

    def __abs__(self):
        return SInt(z3.If(self.e >= 0, self.e, -self.e))

    @_ni
    def __lt__(self, o):
        if _isreal(o):
            return SReal.of(self) < o
        return SBool(self.e < _ei(o))

    @_ni
    def __le__(self, o):
        if _isreal(o):
            return SReal.of(self) <= o
        return SBool(self.e <= _ei(o))

    @_ni
    def __gt__(self, o):
        if _isreal(o):
            return SReal.of(self) > o
        return SBool(self.e > _ei(o))

    @_ni
    def __ge__(self, o):
        if _isreal(o):
            return SReal.of(self) >= o
        return SBool(self.e >= _ei(o))

    def __eq__(self, o):
        if _isreal(o):
            return SReal.of(self) == o
        try:
            return SBool(self.e == _ei(o))
        except TypeError:
            return False

    def __ne__(self, o):
        if _isreal(o):
            return SReal.of(self) != o
        try:
            return SBool(self.e != _ei(o))
        except TypeError:
            return True

    def __hash__(self):
        return hash(concretize(self))

    def __index__(self):
        return concretize(self)

    __int__ = __index__

    def __float__(self):
        return builtins.float(concretize(self))

    def __bool__(self):
        return CTX.fork(self.e != 0)

    def __repr__(self):
        return "<SInt>"

    def __format__(self, spec):
        return "<SInt>"

    # numpy-scalar look-alikes used by cooler
    def item(self):
        return self

    def astype(self, dtype):
        return self

    @property
    def dtype(self):
        import numpy as np
        return np.dtype("int64")


def _floordiv(a, b):
    if z3.is_int_value(b):
        if b.as_long() > 0:
            return a / b
        if b.as_long() < 0:
            return (-a) / (-b)
        raise ZeroDivisionError("integer division or modulo by zero")
    if bool(SBool(b == 0)):
        raise ZeroDivisionError("integer division or modulo by zero")
    return z3.If(b > 0, a / b, (-a) / (-b))


def _mod(a, b):
    if z3.is_int_value(b):
        if b.as_long() > 0:
            return a % b
        if b.as_long() == 0:
            raise ZeroDivisionError("integer division or modulo by zero")
    if bool(SBool(b == 0)):
        raise ZeroDivisionError("integer division or modulo by zero")
    return a - b * z3.If(b > 0, a / b, (-a) / (-b))


class SReal:
    """Extended real: exact z3 Real value plus a NaN flag (no infinities, no rounding)."""
    __slots__ = ("v", "nan")
    __array_ufunc__ = None

    def __init__(self, v, nan=None):
        self.v = v
        self.nan = z3.BoolVal(False) if nan is None else nan

    @staticmethod
    def of(x):
        if isinstance(x, SReal):
            return x
        if isinstance(x, SInt):
            return SReal(z3.ToReal(x.e))
        if isinstance(x, SBool):
            return SReal(z3.If(x.e, z3.RealVal(1), z3.RealVal(0)))
        if isinstance(x, bool):
            return SReal(z3.RealVal(builtins.int(x)))
        I, B, F = _np_int_types()
        if isinstance(x, (I, B, F)):
            x = x.item()
        if isinstance(x, builtins.float):
            if math.isnan(x):
                return SReal(z3.RealVal(0), z3.BoolVal(True))
            if math.isinf(x):
                raise Inconclusive("infinity in real model")
            fr = fractions.Fraction(x)
            return SReal(z3.RealVal(fr.numerator) / z3.RealVal(fr.denominator) if fr.denominator != 1 else z3.RealVal(fr.numerator))
        if isinstance(x, builtins.int):
            return SReal(z3.RealVal(x))
        raise TypeError(type(x))

    def _b(self, o, f, name=None):
        try:
            o = SReal.of(o)
        except TypeError:
            return _nd_operand(self, o, name) if name else NotImplemented
        return SReal(f(self.v, o.v), z3.Or(self.nan, o.nan))

    def __add__(self, o):
        return self._b(o, lambda a, b: a + b, "__add__")

    __radd__ = __add__

    def __sub__(self, o):
        return self._b(o, lambda a, b: a - b, "__sub__")

    def __rsub__(self, o):
        return self._b(o, lambda a, b: b - a, "__rsub__")

    def __mul__(self, o):
        return self._b(o, lambda a, b: a * b, "__mul__")

    __rmul__ = __mul__

    def __truediv__(self, o):
        try:
            o = SReal.of(o)
        except TypeError:
            return NotImplemented
        # x/0 -> nan (numpy: inf or nan with a warning); callers that care fork first
        return SReal(self.v / o.v, z3.Or(self.nan, o.nan, o.v == 0))

    def __rtruediv__(self, o):
        try:
            o = SReal.of(o)
        except TypeError:
            return NotImplemented
        return o.__truediv__(self)

    def __neg__(self):
        return SReal(-self.v, self.nan)

    def __abs__(self):
        return SReal(z3.If(self.v >= 0, self.v, -self.v), self.nan)

    def __pow__(self, o):
        if isinstance(o, builtins.int) and 0 <= o <= 4:
            r = SReal.of(1)
            for _ in range(o):
                r = r * self
            return r
        return NotImplemented

    def _c(self, o, f, nanval=False):
        try:
            o = SReal.of(o)
        except TypeError:
            return NotImplemented
        anynan = z3.Or(self.nan, o.nan)
        return SBool(z3.If(anynan, z3.BoolVal(nanval), f(self.v, o.v)))

    def __lt__(self, o):
        return self._c(o, lambda a, b: a < b)

    def __le__(self, o):
        return self._c(o, lambda a, b: a <= b)

    def __gt__(self, o):
        return self._c(o, lambda a, b: a > b)

    def __ge__(self, o):
        return self._c(o, lambda a, b: a >= b)

    def __eq__(self, o):
        return self._c(o, lambda a, b: a == b)

    def __ne__(self, o):
        return self._c(o, lambda a, b: a != b, True)

    __hash__ = None

    def isnan(self):
        return SBool(self.nan)

    def floor(self):
        return SInt(z3.ToInt(self.v))

    def ceil(self):
        return SInt(-z3.ToInt(-self.v))

    def __bool__(self):
        return CTX.fork(z3.Or(self.nan, self.v != 0))

    def __ceil__(self):
        return self.ceil()

    def __floor__(self):
        return self.floor()

    def __trunc__(self):
        return SInt(z3.If(self.v >= 0, z3.ToInt(self.v), -z3.ToInt(-self.v)))

    def __float__(self):
        raise Inconclusive("float() of a symbolic real")

    def __repr__(self):
        return "<SReal>"

    def __format__(self, spec):
        return "<SReal>"

    def item(self):
        return self

    @property
    def dtype(self):
        import numpy as np
        return np.dtype("float64")


def is_sym(x):
    return isinstance(x, (SInt, SBool, SReal))


def ite(c, a, b):
    """a if c else b, without forking."""
    if not isinstance(c, SBool):
        return a if c else b
    if z3.is_true(c.e):
        return a
    if z3.is_false(c.e):
        return b
    if isinstance(a, SReal) or isinstance(b, SReal) or isinstance(a, builtins.float) or isinstance(b, builtins.float):
        a, b = SReal.of(a), SReal.of(b)
        return SReal(z3.If(c.e, a.v, b.v), z3.If(c.e, a.nan, b.nan))
    ea, eb = _e(a), _e(b)
    if z3.is_bool(ea) != z3.is_bool(eb):
        ea, eb = _ei(a), _ei(b)
    r = z3.If(c.e, ea, eb)
    return SBool(r) if z3.is_bool(r) else SInt(r)


def and_(*xs):
    es = []
    for x in xs:
        if isinstance(x, SBool):
            es.append(x.e)
        elif not x:
            return False
    if not es:
        return True
    return SBool(z3.And(*es)) if len(es) > 1 else SBool(es[0])


def or_(*xs):
    es = []
    for x in xs:
        if isinstance(x, SBool):
            es.append(x.e)
        elif x:
            return True
    if not es:
        return False
    return SBool(z3.Or(*es)) if len(es) > 1 else SBool(es[0])


def not_(x):
    if isinstance(x, SBool):
        return ~x
    return not x


def ssum(xs):
    acc = 0
    for x in xs:
        if isinstance(x, (SBool, bool)):
            x = ite(x, 1, 0) if isinstance(x, SBool) else builtins.int(x)
        acc = acc + x
    return acc


def concretize(x):
    """Fork over all feasible concrete values of the int-like x on this path."""
    if isinstance(x, SBool):
        return builtins.int(bool(x))
    if not isinstance(x, SInt):
        if isinstance(x, SReal):
            raise Inconclusive("concretize of a real")
        return builtins.int(x)
    e = z3.simplify(x.e)
    if z3.is_int_value(e):
        return e.as_long()
    tried = 0
    while True:
        if CTX.pos < len(CTX.trail):
            v = CTX.trail[CTX.pos][2]
            if v is None:
                raise Inconclusive("trail desync in concretize")
        else:
            m = CTX.ensure_model()
            v = m.eval(e, model_completion=True).as_long()
        tried += 1
        if tried > MAX_CONCRETIZE:
            raise Inconclusive("concretize: more than %d feasible values (missing bound)" % MAX_CONCRETIZE)
        if CTX.fork(e == v, payload=v):
            CTX.stats["concretized"] += 1
            return v


# ---------------------------------------------------------------------------
# harness API
# ---------------------------------------------------------------------------
def sym_int(name, lo=None, hi=None):
    x = SInt(z3.Int(name))
    if lo is not None:
        CTX.add(x.e >= _ei(lo))
    if hi is not None:
        CTX.add(x.e <= _ei(hi))
    CTX.inputs[name] = x
    return x


def sym_bool(name):
    x = SBool(z3.Bool(name))
    CTX.inputs[name] = x
    return x


def sym_real(name, lo=None, hi=None, nan=False):
    v = z3.Real(name)
    if nan:
        x = SReal(v, z3.Bool(name + "#nan"))
    else:
        x = SReal(v)
    if lo is not None:
        CTX.add(v >= lo)
    if hi is not None:
        CTX.add(v <= hi)
    CTX.inputs[name] = x
    return x


def fresh_int(base, lo=None, hi=None):
    """internal nondeterministic value (environment stub), not an input"""
    x = SInt(z3.Int(CTX.fresh_name(base)))
    if lo is not None:
        CTX.add(x.e >= _ei(lo))
    if hi is not None:
        CTX.add(x.e <= _ei(hi))
    CTX.inputs[str(x.e)] = x
    return x


def _cond(c):
    if isinstance(c, SBool):
        return c.e
    if isinstance(c, (bool,)):
        return z3.BoolVal(c)
    if z3.is_expr(c):
        return c
    I, B, F = _np_int_types()
    if isinstance(c, B):
        return z3.BoolVal(builtins.bool(c))
    raise TypeError(f"not a condition: {type(c)}")


def assume(c):
    c = z3.simplify(_cond(c))
    if z3.is_true(c):
        return
    if z3.is_false(c):
        raise PathAbort()
    CTX.add(c)
    if CTX.model is None and not CTX.check():
        raise PathAbort()


def _second_solver(c, z3_says_sat):
    """re-discharge pc and not c with cvc5 (SMT-LIB2 export); disagreement is inconclusive, an error/timeout is 'unsupported'"""
    t = time.time()
    CTX.stats["cross_checked"] += 1
    try:
        import cvc5
        s2 = z3.Solver()
        s2.add(CTX.solver.assertions())
        s2.add(z3.Not(c))
        smt = s2.to_smt2()
        slv = cvc5.Solver()
        slv.setOption("tlimit-per", "20000")
        slv.setLogic("ALL")
        par = cvc5.InputParser(slv)
        par.setStringInput(cvc5.InputLanguage.SMT_LIB_2_6, smt, "obligation")
        sm = par.getSymbolManager()
        verdict = None
        while True:
            cmd = par.nextCommand()
            if cmd.isNull():
                break
            out = cmd.invoke(slv, sm).strip()
            if out in ("sat", "unsat", "unknown"):
                verdict = out
    except Exception:  # noqa - parser/logic not supported by cvc5 for this query
        verdict = None
    CTX.stats["cross_s"] += time.time() - t
    if verdict in (None, "unknown"):
        CTX.stats["cross_unsupported"] += 1
        return
    if (verdict == "sat") != z3_says_sat:
        raise Inconclusive(f"solvers disagree on an obligation: z3 {'sat' if z3_says_sat else 'unsat'}, cvc5 {verdict}")
    CTX.stats["cross_agree"] += 1


def prove(c, msg="assertion"):
    """Obligation: c holds for every value on this path. A failure is recorded with its model
    and the path continues under the assumption c (so later obligations are still examined)."""
    CTX.stats["obligations"] += 1
    c = z3.simplify(_cond(c))
    if z3.is_true(c):
        CTX.stats["discharged"] += 1
        return True
    if CTX.cross_every and CTX.stats["obligations"] % CTX.cross_every == 0:
        sat = CTX.check(z3.Not(c))
        _second_solver(c, sat)
    if CTX.check(z3.Not(c)):
        m = CTX.get_model()
        record_violation(msg, m)
        CTX.add(c)
        if not CTX.check():
            raise PathAbort()
        CTX.model = CTX.get_model()
        return False
    CTX.stats["discharged"] += 1
    return True


def cover(label, c=True):
    """Reachability witness: label is covered when pc /\\ c is satisfiable on some path."""
    c = z3.simplify(_cond(c))
    if label in CTX.covered:
        # already witnessed somewhere: only note (for the non-trivial count) whether this path's cached model satisfies it
        if z3.is_true(c) or (CTX.model is not None and not z3.is_false(c) and z3.is_true(CTX.model.eval(c, model_completion=True))):
            CTX.labels.add(label)
        return
    if z3.is_false(c):
        return
    if z3.is_true(c):
        ok = True
        CTX.ensure_model()
    else:
        ok = False
        if CTX.model is not None and z3.is_true(CTX.model.eval(c, model_completion=True)):
            ok = True
        elif CTX.check(c):
            ok = True
    if ok:
        CTX.covered[label] = CTX.stats["paths"]
        CTX.labels.add(label)


def note(s):
    CTX.notes.append(s)


def model_inputs(m, inputs=None):
    out = {}
    for name, x in (inputs if inputs is not None else CTX.inputs).items():
        out[name] = eval_value(m, x)
    return out


def eval_value(m, x):
    """Concrete python value of a (possibly symbolic, possibly nested) value under model m."""
    if isinstance(x, SInt):
        return m.eval(x.e, model_completion=True).as_long()
    if isinstance(x, SBool):
        return z3.is_true(m.eval(x.e, model_completion=True))
    if isinstance(x, SReal):
        if z3.is_true(m.eval(x.nan, model_completion=True)):
            return builtins.float("nan")
        v = m.eval(x.v, model_completion=True)
        if z3.is_rational_value(v):
            fr = fractions.Fraction(v.numerator_as_long(), v.denominator_as_long())
            return builtins.int(fr) if fr.denominator == 1 else builtins.float(fr)
        if z3.is_algebraic_value(v):
            return builtins.float(v.approx(20).as_fraction())
        raise Inconclusive(f"cannot evaluate real {v}")
    if isinstance(x, dict):
        return {k: eval_value(m, v) for k, v in x.items()}
    if isinstance(x, (list, tuple)):
        return [eval_value(m, v) for v in x]
    if hasattr(x, "__symeval__"):
        return x.__symeval__(m)
    I, B, F = _np_int_types()
    if isinstance(x, (I, B, F)):
        return x.item()
    try:
        import numpy as np
        if isinstance(x, np.ndarray):
            return x.tolist()
    except ImportError:
        pass
    return x


def record_violation(msg, m):
    if len(CTX.violations) < 8:
        CTX.violations.append(dict(msg=str(msg)[:500], inputs=model_inputs(m), notes=list(CTX.notes),
                                   path=[t[0] for t in CTX.trail[:CTX.pos]]))


_ALARM = {"armed": False}


def _alarm(seconds):
    import signal
    if seconds and hasattr(signal, "setitimer"):
        def h(sig, frm):
            if _ALARM["armed"]:
                raise PathTimeout()
        signal.signal(signal.SIGALRM, h)
        _ALARM["armed"] = True
        # periodic after the first expiry: an exception raised while the interpreter happens to be inside a __del__ (z3 proxies are
        # freed at a high rate) is swallowed as "Exception ignored", and a one-shot timer would then never fire again
        signal.setitimer(signal.ITIMER_REAL, seconds, 2.0)


def _alarm_off():
    import signal
    _ALARM["armed"] = False
    if hasattr(signal, "setitimer"):
        signal.setitimer(signal.ITIMER_REAL, 0)


def explore(fn, prefix=None, split_depth=None, on_path=None, max_paths=None, deadline=None,
            expect=(Exception,), path_timeout=None, stop_on_violation=False):
    """Run fn() once per feasible path.

    prefix      list of [decision, payload] forced at the start (worker side of prefix splitting)
    split_depth enumerate feasible decision prefixes of that depth instead of running to the end
    on_path     callback(model, result, labels) on each completed path
    Returns dict(prefixes=[...]) in split mode, else None. Violations accumulate in CTX.violations.
    """
    CTX.trail = [[d, False, p] for d, p in (prefix or [])]
    CTX.split_depth = split_depth
    prefixes = []
    CTX.active = True
    try:
        while True:
            CTX.new_path()
            try:
                _alarm(path_timeout)
                try:
                    res = fn()
                finally:
                    _alarm_off()
                m = CTX.ensure_model()
                CTX.stats["paths"] += 1
                if on_path is not None:
                    on_path(m, res, set(CTX.labels))
            except PathAbort:
                CTX.stats["aborted"] += 1
            except SplitPoint:
                prefixes.append([[t[0], t[2]] for t in CTX.trail])
            except PathTimeout:
                _alarm_off()
                try:
                    m = CTX.ensure_model()
                except (PathAbort, Inconclusive):
                    raise Inconclusive("a path exceeded its time budget and no model is available")
                CTX.stats["paths"] += 1
                CTX.stats["obligations"] += 1
                record_violation(f"non-termination: one execution path ran longer than {path_timeout}s", m)
            except (Inconclusive, KeyboardInterrupt, SystemExit, MemoryError):
                raise
            except expect as ex:  # unexpected exception escaping the code under test
                import traceback
                if __import__("os").environ.get("VERIF_DEBUG"):
                    traceback.print_exc()
                tb = traceback.extract_tb(ex.__traceback__)
                where = ""
                for fr in reversed(tb):
                    if "/src/cooler/" in fr.filename:
                        where = f" at src/cooler/{fr.filename.split('/src/cooler/')[-1]}:{fr.lineno}"
                        break
                if not where:
                    # the exception never passed through the code under test: the harness (or a shim called from it) is at fault
                    raise HarnessError(f"exception raised by the harness itself, not by cooler: {type(ex).__name__}: {ex} "
                                       f"({tb[-1].filename}:{tb[-1].lineno})" if tb else repr(ex))
                try:
                    m = CTX.ensure_model()
                except PathAbort:
                    CTX.stats["aborted"] += 1
                else:
                    CTX.stats["paths"] += 1
                    CTX.stats["obligations"] += 1
                    record_violation(f"unexpected {type(ex).__name__}: {ex}{where}", m)
            if stop_on_violation and CTX.violations:
                break
            if max_paths is not None and CTX.stats["paths"] >= max_paths:
                raise Inconclusive("path budget exceeded")
            if deadline is not None and time.time() > deadline:
                raise Inconclusive("time budget exceeded")
            if not CTX.backtrack():
                break
    finally:
        CTX.active = False
        CTX.split_depth = None
    return prefixes
