"""`math` for the code under test: the real module on concrete numbers, exact-real models on symbolic ones
(floor, ceil, sqrt, isnan, isfinite, isclose, fabs, trunc). Everything else is the real `math`."""
import math as _m

import z3

from .symcore import SBool, SInt, SReal, Inconclusive, and_, or_, not_, ite
from . import symnp as _np

_SYM = (SInt, SReal, SBool)


def __getattr__(name):
    return getattr(_m, name)


def _abs(x):
    return ite(x < 0, -x, x) if isinstance(x, _SYM) else abs(x)


def floor(x):
    return _np.floor(x) if isinstance(x, _SYM) else _m.floor(x)


def ceil(x):
    return _np.ceil(x) if isinstance(x, _SYM) else _m.ceil(x)


def trunc(x):
    if isinstance(x, SReal):
        return SInt(z3.If(x.v >= 0, z3.ToInt(x.v), -z3.ToInt(-x.v)))
    return x if isinstance(x, SInt) else _m.trunc(x)


def fabs(x):
    return _abs(SReal.of(x)) if isinstance(x, _SYM) else _m.fabs(x)


def sqrt(x):
    return _np.sqrt(x) if isinstance(x, _SYM) else _m.sqrt(x)


def isnan(x):
    if isinstance(x, SReal):
        return SBool(x.nan)
    return False if isinstance(x, (SInt, SBool)) else _m.isnan(x)


def isfinite(x):
    if isinstance(x, SReal):
        return SBool(z3.Not(x.nan))
    return True if isinstance(x, (SInt, SBool)) else _m.isfinite(x)


def isclose(a, b, *, rel_tol=1e-09, abs_tol=0.0):
    """documented formula: abs(a-b) <= max(rel_tol * max(abs(a), abs(b)), abs_tol); exact reals (binary64 rounding of the
    operands is not modelled - E2)"""
    if not any(isinstance(v, _SYM) for v in (a, b)):
        return _m.isclose(a, b, rel_tol=rel_tol, abs_tol=abs_tol)
    from fractions import Fraction
    a, b = SReal.of(a), SReal.of(b)
    rt, at = Fraction(rel_tol).limit_denominator(10**18), Fraction(abs_tol).limit_denominator(10**18)
    d = _abs(a - b)
    aa, ab = _abs(a), _abs(b)
    big = ite(aa > ab, aa, ab)
    lim = big * SReal(z3.RealVal(str(rt)))
    atv = SReal(z3.RealVal(str(at)))
    lim = ite(lim > atv, lim, atv)
    return d <= lim
