"""Import hook: serves /repo/src/cooler/**.py as the package `symcooler`.

Only `import` statements are rewritten (numpy/pandas/h5py/scipy.sparse/... -> shims) and a few
builtins (`int`, `float`, `min`, `max`, `round`) are shadowed in the module globals so that
values stay symbolic.  Every other statement of cooler executes unmodified, and the source is
re-read from the working tree on every run.
"""
from __future__ import annotations

import ast
import builtins
import hashlib
import importlib.abc
import importlib.machinery
import os
import sys

REPO = os.environ.get("VERIF_REPO", "/repo")
ROOT = os.path.join(REPO, "src", "cooler")
PKG = "symcooler"

SUBST = {
    "numpy": "engine.symnp",
    "pandas.api.types": "engine.sympd_types",
    "pandas": "engine.sympd",
    "h5py": "engine.symh5",
    "scipy.sparse": "engine.symsp",
    "multiprocess": "engine.symmp",
    "pysam": "engine.sympysam",
    "fractions": "engine.symfractions",
    "decimal": "engine.symfractions",
    "math": "engine.symmath",
}

# per-module substitutions (module name below the package -> {real module: shim})
SUBST_BY_MODULE = {"util": {"re": "engine.symre"}}

# relpath (under src/cooler) -> list of (old, new) textual substitutions, applied in memory only
MUTATIONS: dict[str, list[tuple[str, str]]] = {}
LOADED: dict[str, str] = {}  # relpath -> sha1 of the text that was compiled
EXTRA_GLOBALS: dict[str, dict] = {}  # module name (without package) -> extra globals


_CURRENT = [None]


def _subst(name):
    extra = SUBST_BY_MODULE.get(_CURRENT[0], {})
    if name in extra:
        return extra[name]
    best = None
    for k in SUBST:
        if name == k or name.startswith(k + "."):
            if best is None or len(k) > len(best):
                best = k
    if best is None:
        return None
    return SUBST[best] + name[len(best):]


class _Rewrite(ast.NodeTransformer):
    def visit_Import(self, node):
        for a in node.names:
            new = _subst(a.name)
            if new is not None:
                if a.asname is None:
                    if "." in a.name:
                        continue  # `import a.b` binds `a`; cannot be emulated by an alias
                    a.asname = a.name
                a.name = new
        return node

    def visit_ImportFrom(self, node):
        if node.level == 0 and node.module:
            new = _subst(node.module)
            if new is not None:
                node.module = new
        return node


def _shadow_builtins():
    from . import symbuiltins
    return symbuiltins.SHADOW


class Finder(importlib.abc.MetaPathFinder, importlib.abc.Loader):
    def find_spec(self, name, path, target=None):
        if name != PKG and not name.startswith(PKG + "."):
            return None
        rel = name[len(PKG):].lstrip(".").replace(".", "/")
        base = os.path.join(ROOT, rel) if rel else ROOT
        if os.path.isdir(base):
            return importlib.machinery.ModuleSpec(name, self, origin=base + "/__init__.py", is_package=True)
        if os.path.isfile(base + ".py"):
            return importlib.machinery.ModuleSpec(name, self, origin=base + ".py")
        return None

    def create_module(self, spec):
        return None

    def exec_module(self, module):
        path = module.__spec__.origin
        if module.__spec__.submodule_search_locations is not None:
            module.__path__ = [os.path.dirname(path)]
        rel = os.path.relpath(path, ROOT)
        text = open(path).read()
        for old, new in MUTATIONS.get(rel, []):
            if old not in text:
                raise MutationError(f"mutation target not found in {rel}: {old!r}")
            text = text.replace(old, new, 1)
        LOADED[rel] = hashlib.sha1(text.encode()).hexdigest()
        _CURRENT[0] = module.__name__[len(PKG):].lstrip(".")
        tree = _Rewrite().visit(ast.parse(text, path))
        ast.fix_missing_locations(tree)
        module.__file__ = path
        module.__dict__.update(_shadow_builtins())
        short = module.__name__[len(PKG):].lstrip(".")
        module.__dict__.update(EXTRA_GLOBALS.get(short, {}))
        exec(compile(tree, path, "exec"), module.__dict__)


class MutationError(BaseException):
    pass


_installed = False


def install():
    global _installed
    if not _installed:
        sys.meta_path.insert(0, Finder())
        _installed = True


def unload():
    for k in [k for k in sys.modules if k == PKG or k.startswith(PKG + ".")]:
        del sys.modules[k]


# ---------------------------------------------------------------------------
# measured "functions encoded": which cooler code objects / lines actually executed
# ---------------------------------------------------------------------------
_FUNCS: dict[tuple, set] = {}
_TOOL = 3


def start_coverage():
    mon = sys.monitoring
    try:
        mon.use_tool_id(_TOOL, "verif-cov")
    except ValueError:
        return

    def on_line(code, line):
        if code.co_filename.startswith(ROOT) and (code.co_flags & 0x1):  # function bodies only (CO_OPTIMIZED), not class/module bodies
            _FUNCS.setdefault((code.co_filename, code.co_qualname, code.co_firstlineno), set()).add(line)
        return mon.DISABLE

    mon.register_callback(_TOOL, mon.events.LINE, on_line)
    mon.set_events(_TOOL, mon.events.LINE)


def coverage_report():
    """list of dicts: function, file, line, executed_lines (module-level code is skipped)"""
    out = []
    for (fn, qual, first), lines in sorted(_FUNCS.items()):
        if qual == "<module>" or "<lambda>" in qual or "<genexpr>" in qual or "<listcomp>" in qual:
            continue
        out.append(dict(function=qual, file=os.path.relpath(fn, REPO), line=first, executed_lines=len(lines)))
    return out
