"""In-memory model of the part of h5py that cooler uses (stub E3).

Storage nodes (_GroupNode/_DatasetNode) are separate from the File/Group/Dataset *handles* bound to them,
as in h5py (`util.closing_hdf5` subclasses Group and calls `super().__init__(grp.id)`).  Files live in a
registry keyed by real path; a zero-byte marker file is kept on disk so that `os.path.isfile`,
`tempfile.NamedTemporaryFile` and friends, which cooler calls directly, stay consistent with the model.
Integer writes clip to the dataset type as HDF5's hard conversion does; filters are no-ops.
"""
from __future__ import annotations

import builtins
import os
import posixpath

import h5py as _h5
import numpy as _np

from . import symnp
from .symcore import Inconclusive, SBool, SInt, SReal, concretize, is_sym, ite
from .symnp import CArr, SArr, _A

_REG: dict[str, "_FileNode"] = {}


def reset():
    """forget every in-memory file (called at the start of each explored path)"""
    _REG.clear()


def __getattr__(name):
    return getattr(_h5, name)


special_dtype = _h5.special_dtype
check_dtype = _h5.check_dtype
string_dtype = _h5.string_dtype


# ---------------------------------------------------------------------------
# storage
# ---------------------------------------------------------------------------
class _Node:
    def __init__(self):
        self.attrs = {}


class _GroupNode(_Node):
    def __init__(self):
        super().__init__()
        self.children = {}  # name -> ("hard", node) | ("soft", path) | ("external", filename, path)


class _DatasetNode(_Node):
    def __init__(self, data, dtype, maxshape=None, fillvalue=None):
        super().__init__()
        self.data = data          # SArr (numeric) or numpy array (strings / objects)
        self.dtype = dtype        # numpy dtype, may carry h5py enum metadata
        self.maxshape = maxshape
        self.fillvalue = fillvalue


class _FileNode:
    def __init__(self, path):
        self.path = path
        self.root = _GroupNode()
        self.attrs = self.root.attrs
        self.opens = []   # open records: dict(open=bool, mode=str)


class SoftLink:
    def __init__(self, path):
        self.path = path


class ExternalLink:
    def __init__(self, filename, path):
        self.filename, self.path = filename, path


class _ObjID:
    def __init__(self, fnode, node, name, mode, rec=None):
        self.fnode, self.node, self.name, self.mode, self.rec = fnode, node, name, mode, rec

    @property
    def valid(self):
        return True


def _key(path):
    return os.path.realpath(os.fspath(path))


def is_hdf5(path):
    try:
        k = _key(path)
    except TypeError:
        return False
    return k in _REG and os.path.exists(k)


def _deepcopy(node):
    if isinstance(node, _DatasetNode):
        d = _DatasetNode(node.data.copy(), node.dtype, node.maxshape, node.fillvalue)
        d.attrs = dict(node.attrs)
        return d
    g = _GroupNode()
    g.attrs = dict(node.attrs)
    for k, link in node.children.items():
        if link[0] == "hard":
            g.children[k] = ("hard", _deepcopy(link[1]))
        else:
            g.children[k] = link
    return g


def _strip_attrs(node):
    """h5py: copy(..., without_attrs=True) copies the object(s) without any HDF5 attribute, through the whole subtree"""
    node.attrs = {}
    if isinstance(node, _GroupNode):
        for k, link in node.children.items():
            if link[0] == "hard":
                _strip_attrs(link[1])


# ---------------------------------------------------------------------------
# conversion of values into a dataset type
# ---------------------------------------------------------------------------
def _clip_int(x, dt, src_dt=None):
    info = _np.iinfo(dt)
    if isinstance(x, SBool):
        x = ite(x, 1, 0)
    if isinstance(x, SReal):
        x = SInt(__import__("z3").If(x.v >= 0, __import__("z3").ToInt(x.v), -__import__("z3").ToInt(-x.v)))
    if isinstance(x, SInt):
        if src_dt is not None and src_dt.kind in "iub":
            try:
                si = _np.iinfo(src_dt) if src_dt.kind != "b" else None
                if si is None or (si.min >= info.min and si.max <= info.max):
                    return x
            except ValueError:
                pass
        return ite(x > info.max, info.max, ite(x < info.min, info.min, x))
    if isinstance(x, float):
        if x != x:
            return 0
        x = builtins.int(x)
    x = builtins.int(x)
    return info.max if x > info.max else (info.min if x < info.min else x)


def _convert(values, dt, src_dt=None):
    """python list of element values converted to dataset dtype `dt` (HDF5 hard conversion)"""
    k = dt.kind
    if k in "iu":
        return [_clip_int(v, dt, src_dt) for v in values]
    if k == "f":
        return [SReal.of(v) if is_sym(v) else builtins.float(v) for v in values]
    if k == "b":
        return [v if isinstance(v, (SBool, bool)) else (v != 0) for v in values]
    return values


def _to_items(data, n=None):
    """(list of python/symbolic elements, source dtype) from any array-like"""
    if hasattr(data, "_col"):  # sympd.SSeries
        data = data._col
        if hasattr(data, "codes") and hasattr(data, "categories"):
            data = data.codes
    if hasattr(data, "__sarr__") and not isinstance(data, SArr):
        data = data.__sarr__()
    if isinstance(data, SArr):
        return list(data.items), data.dtype
    if isinstance(data, (SInt, SBool, SReal)):
        return [data] * (n if n is not None else 1), symnp._elem_dtype(data)
    try:
        import pandas as _pd
        if isinstance(data, _pd.Series):
            data = data.to_numpy()
    except ImportError:
        pass
    if isinstance(data, (list, tuple)):
        if builtins.any(is_sym(x) for x in data):
            a = SArr(list(data))
            return list(a.items), a.dtype
        data = _np.asarray(data)
    if isinstance(data, _np.ndarray):
        if data.ndim == 0:
            return [data.item()] * (n if n is not None else 1), data.dtype
        return data.tolist(), data.dtype
    if _np.isscalar(data):
        return [data] * (n if n is not None else 1), _np.asarray(data).dtype
    a = _np.asarray(data)
    return a.tolist(), a.dtype


# ---------------------------------------------------------------------------
# handles
# ---------------------------------------------------------------------------
class AttributeManager:
    def __init__(self, node, mode):
        self._d = node.attrs
        self._mode = mode

    @staticmethod
    def _out(v):
        if isinstance(v, bool):
            return _np.bool_(v)
        if isinstance(v, builtins.int):
            return _np.int64(v)
        if isinstance(v, builtins.float):
            return _np.float64(v)
        if isinstance(v, (list, tuple)):
            return _np.asarray(v)
        return v

    def __getitem__(self, k):
        return self._out(self._d[k])

    def __setitem__(self, k, v):
        if self._mode == "r":
            raise KeyError("Unable to synchronously create attribute (no write intent on file)")
        if isinstance(v, _np.generic):
            v = v.item()
        if isinstance(v, bytes):
            v = v.decode()
        self._d[k] = v

    def __delitem__(self, k):
        del self._d[k]

    def __contains__(self, k):
        return k in self._d

    def __iter__(self):
        return iter(list(self._d))

    def __len__(self):
        return len(self._d)

    def get(self, k, default=None):
        return self._out(self._d[k]) if k in self._d else default

    def keys(self):
        return list(self._d.keys())

    def values(self):
        return [self._out(v) for v in self._d.values()]

    def items(self):
        return [(k, self._out(v)) for k, v in self._d.items()]

    def update(self, other=(), **kw):
        items = other.items() if hasattr(other, "items") else other
        for k, v in items:
            self[k] = v
        for k, v in kw.items():
            self[k] = v

    def create(self, name, data, **kw):
        self[name] = data

    def modify(self, name, value):
        self[name] = value


class HLObject:
    def __init__(self, oid):
        self._id = oid

    @property
    def id(self):
        return self._id

    @property
    def name(self):
        return self._id.name

    @property
    def attrs(self):
        return AttributeManager(self._id.node, self._id.mode)

    @property
    def file(self):
        f = File.__new__(File)
        HLObject.__init__(f, _ObjID(self._id.fnode, self._id.fnode.root, "/", self._id.mode, self._id.rec))
        return f

    @property
    def parent(self):
        p = posixpath.dirname(self._id.name) or "/"
        return self.file[p]

    def __bool__(self):
        return True

    def __eq__(self, o):
        return isinstance(o, HLObject) and o._id.node is self._id.node

    def __hash__(self):
        return id(self._id.node)


class Group(HLObject):
    def __init__(self, oid):
        if not isinstance(oid, _ObjID):
            raise ValueError(f"{oid} is not a GroupID")
        super().__init__(oid)

    # -- path resolution ----------------------------------------------------
    def _abs(self, path):
        if isinstance(path, bytes):
            path = path.decode()
        if path.startswith("/"):
            p = posixpath.normpath(path)
        else:
            p = posixpath.normpath(posixpath.join(self._id.name, path))
        return "/" if p in ("//", ".") else p

    def _walk(self, path, follow_last=True, depth=0):
        """resolve to (fnode, node, name); raises KeyError. Relative paths start at this group's node (so that
        groups reached through soft/external links resolve their members correctly)"""
        if depth > 16:
            raise KeyError("too many levels of links")
        if isinstance(path, bytes):
            path = path.decode()
        fnode = self._id.fnode
        if path.startswith("/"):
            node = fnode.root
            name = "/"
        else:
            node = self._id.node
            name = self._id.name
        parts = [x for x in posixpath.normpath(path).split("/") if x and x != "."]
        for i, part in enumerate(parts):
            if part == "..":
                raise Inconclusive("'..' in an HDF5 path")
            if not isinstance(node, _GroupNode) or part not in node.children:
                raise KeyError(f"Unable to synchronously open object (object '{part}' doesn't exist)")
            link = node.children[part]
            last = i == len(parts) - 1
            here = Group(_ObjID(fnode, node, name, self._id.mode, self._id.rec))
            name = posixpath.join(name, part)
            if link[0] == "hard":
                node = link[1]
            elif link[0] == "soft":
                if last and not follow_last:
                    return fnode, link, name
                fnode, node, _ = here._walk(link[1], True, depth + 1)
            else:
                if last and not follow_last:
                    return fnode, link, name
                # HDF5: an absolute name as it is; a relative one first beside the file that holds the link, then from the working directory
                cands = [link[1]] if os.path.isabs(link[1]) else [os.path.join(os.path.dirname(fnode.path), link[1]), os.path.abspath(link[1])]
                k = next((c for c in map(_key, cands) if c in _REG and os.path.exists(c)), None)
                if k is None:
                    raise KeyError("Unable to synchronously open object (unable to open external file)")
                tgt = _REG[k]
                # h5py names an object reached through an external link by its path in the target file
                fnode, node, name = Group(_ObjID(tgt, tgt.root, "/", "r"))._walk(link[2], True, depth + 1)
        return fnode, node, name

    def _handle(self, fnode, node, name):
        oid = _ObjID(fnode, node, name, self._id.mode, self._id.rec)
        if isinstance(node, _DatasetNode):
            return Dataset(oid)
        return Group(oid)

    def __getitem__(self, path):
        if isinstance(path, (_ObjID,)):
            return self._handle(path.fnode, path.node, path.name)
        fnode, node, ap = self._walk(path)
        return self._handle(fnode, node, ap)

    def get(self, name, default=None, getclass=False, getlink=False):
        try:
            if getlink:
                fnode, node, ap = self._walk(name, follow_last=False)
                if isinstance(node, tuple):
                    return SoftLink(node[1]) if node[0] == "soft" else ExternalLink(node[1], node[2])
                return _h5.HardLink()
            return self[name]
        except KeyError:
            return default

    def __contains__(self, path):
        try:
            self._walk(path)
            return True
        except KeyError:
            return False

    def _parent_and_leaf(self, path, create=False):
        ap = self._abs(path)
        if ap == "/":
            raise ValueError("Unable to create link (name already exists)")
        parent, leaf = posixpath.split(ap)
        node = self._id.fnode.root
        for part in [x for x in parent.split("/") if x]:
            if part not in node.children:
                if not create:
                    raise KeyError(f"Unable to open object (component not found: {part})")
                node.children[part] = ("hard", _GroupNode())
            link = node.children[part]
            if link[0] != "hard":
                fn, n2, _ = self._walk("/" + part if node is self._id.fnode.root else part)
                node = n2
            else:
                node = link[1]
            if not isinstance(node, _GroupNode):
                raise ValueError("Unable to create (component is not a group)")
        return node, leaf, ap

    def _writable(self):
        if self._id.mode == "r":
            raise ValueError("Unable to synchronously create (no write intent on file)")

    def __setitem__(self, path, obj):
        self._writable()
        parent, leaf, ap = self._parent_and_leaf(path, create=True)
        if leaf in parent.children:
            if isinstance(obj, ExternalLink):   # (sic) h5py: RuntimeError for external, OSError for soft and hard links
                raise RuntimeError("Unable to synchronously create link (name already exists)")
            raise OSError("Unable to synchronously create link (name already exists)")
        if isinstance(obj, HLObject):
            if obj._id.fnode is not self._id.fnode:
                raise OSError("Unable to create link (interfile hard links are not allowed)")
            parent.children[leaf] = ("hard", obj._id.node)
        elif isinstance(obj, SoftLink):
            parent.children[leaf] = ("soft", obj.path)
        elif isinstance(obj, ExternalLink):
            parent.children[leaf] = ("external", obj.filename, obj.path)
        else:
            self.create_dataset(path, data=obj)

    def __delitem__(self, path):
        self._writable()
        parent, leaf, ap = self._parent_and_leaf(path)
        if leaf not in parent.children:
            raise KeyError(f"Couldn't delete link (name doesn't exist)")
        del parent.children[leaf]

    def keys(self):
        return sorted(self._id.node.children.keys())  # h5py's default name index: alphabetical

    def __iter__(self):
        return iter(self.keys())

    def __len__(self):
        return len(self._id.node.children)

    def values(self):
        return [self.get(k) for k in self.keys()]

    def items(self):
        return [(k, self.get(k)) for k in self.keys()]

    def create_group(self, path, track_order=None):
        self._writable()
        ap = self._abs(path)
        if ap == "/":
            raise ValueError("Unable to synchronously create group (name already exists)")
        parent, leaf, ap = self._parent_and_leaf(path, create=True)
        if leaf in parent.children:
            raise ValueError("Unable to synchronously create group (name already exists)")
        node = _GroupNode()
        parent.children[leaf] = ("hard", node)
        return Group(_ObjID(self._id.fnode, node, ap, self._id.mode, self._id.rec))

    def require_group(self, path):
        if path in self:
            g = self[path]
            if not isinstance(g, Group):
                raise TypeError("Incompatible object already exists")
            return g
        return self.create_group(path)

    def create_dataset(self, name, shape=None, dtype=None, data=None, maxshape=None, fillvalue=None, **filters):
        self._writable()
        for k in filters:
            if k not in ("chunks", "compression", "compression_opts", "scaleoffset", "shuffle", "fletcher32",
                         "track_times", "track_order", "external", "allow_unknown_filter", "rdcc_nbytes"):
                raise TypeError(f"create_dataset() got an unexpected keyword argument '{k}'")
        parent, leaf, ap = self._parent_and_leaf(name, create=True)
        if leaf in parent.children:
            raise ValueError("Unable to synchronously create dataset (name already exists)")
        if isinstance(shape, builtins.int):
            shape = (shape,)
        if data is not None and not isinstance(data, (SArr, _np.ndarray)) and not hasattr(data, "_col"):
            if isinstance(data, (list, tuple)) and not builtins.any(is_sym(x) for x in data):
                data = _np.asarray(data)
        if dtype is None:
            if data is None:
                dtype = _np.dtype("float32")
            else:
                dtype = data.dtype if hasattr(data, "dtype") and not hasattr(data, "_col") else _to_items(data)[1]
        dt = _np.dtype(dtype)
        en = _h5.check_dtype(enum=dt)
        if en is not None and any(isinstance(k, bytes) for k in en):
            # HDF5 stores enum member names as text: what comes back from a file are str keys
            dt = _h5.special_dtype(enum=(_np.dtype(dt.str), {(k.decode() if isinstance(k, bytes) else k): v for k, v in en.items()}))
        if dt.kind == "O" and _h5.check_dtype(vlen=dt) is None and _h5.check_dtype(enum=dt) is None:
            raise TypeError("Object dtype dtype('O') has no native HDF5 equivalent")
        if dt.kind == "U":
            raise TypeError(f"No conversion path for dtype: {dt!r}")
        if data is not None:
            if dt.kind in "iufb":
                items, sdt = _to_items(data)
                n = len(items)
                if shape is not None and tuple(shape) != (n,):
                    if shape == ():
                        pass
                    else:
                        raise ValueError(f"Shape tuple is incompatible with data")
                store = SArr(_convert(items, dt, sdt), _plain(dt))
            else:
                arr = _np.asarray(data if not isinstance(data, SArr) else data.to_real())
                if dt.kind == "S" and arr.dtype.kind in "UO":
                    arr = _np.array([x.encode() if isinstance(x, str) else x for x in arr.tolist()], dtype=dt if dt.itemsize else "S")
                elif dt.kind == "S":
                    arr = arr.astype(dt if dt.itemsize else arr.dtype)
                if shape is not None and tuple(shape) != arr.shape:
                    raise ValueError("Shape tuple is incompatible with data")
                store = arr
                if dt.kind == "S" and dt.itemsize == 0:
                    dt = arr.dtype
        else:
            if shape is None:
                raise TypeError("One of data, shape or dtype must be specified")
            if len(shape) != 1:
                raise Inconclusive("multi-dimensional dataset")
            n = concretize(shape[0])
            fv = fillvalue if fillvalue is not None else 0
            if dt.kind in "iufb":
                store = SArr(_convert([fv] * n, dt), _plain(dt))
            else:
                store = _np.zeros(n, dtype=dt)
        if maxshape is not None:
            if isinstance(maxshape, builtins.int):
                maxshape = (maxshape,)
            ms = maxshape[0]
            ms = None if ms is None else concretize(ms)
            if ms is not None and len(store) > ms:
                raise ValueError("Unable to synchronously create dataset (current size must not exceed maximum size)")
            maxshape = (ms,)
        node = _DatasetNode(store, dt, maxshape, fillvalue)
        parent.children[leaf] = ("hard", node)
        return Dataset(_ObjID(self._id.fnode, node, ap, self._id.mode, self._id.rec))

    def require_dataset(self, name, shape, dtype, **kw):
        if name in self:
            return self[name]
        return self.create_dataset(name, shape=shape, dtype=dtype, **kw)

    def copy(self, source, dest, name=None, **kw):
        if isinstance(source, HLObject):
            snode, sname = source._id.node, source._id.name
        else:
            try:
                _, snode, sname = self._walk(source)
            except KeyError:
                raise RuntimeError(f"Unable to synchronously copy object (object '{source}' doesn't exist)") from None
        if isinstance(dest, HLObject):
            dgrp = dest
            if name is None:
                name = posixpath.basename(sname)
        else:
            dgrp = self
            name = dest
        dgrp._writable()
        if not isinstance(dgrp, Group):
            raise TypeError("destination must be a group")
        if name is None or name in ("", "/"):
            raise ValueError("Unable to copy object (destination name required)")
        parent, leaf, ap = dgrp._parent_and_leaf(name, create=True)
        if leaf in parent.children:
            raise RuntimeError("Unable to synchronously copy object (destination object already exists)")
        for opt in ("shallow", "expand_soft", "expand_external", "expand_refs"):
            if kw.get(opt):
                raise NotImplementedError(f"Group.copy({opt}=True) is not modelled (shim)")
        new = _deepcopy(snode)
        if kw.get("without_attrs"):
            _strip_attrs(new)
        parent.children[leaf] = ("hard", new)

    def move(self, source, dest):
        self[dest] = self[source]
        del self[source]

    def visititems(self, func):
        def rec(g, prefix):
            for k in g.keys():
                o = g[k]
                p = prefix + k
                r = func(p, o)
                if r is not None:
                    return r
                if isinstance(o, Group):
                    r = rec(o, p + "/")
                    if r is not None:
                        return r
        return rec(self, "")

    def visit(self, func):
        return self.visititems(lambda n, o: func(n))

    def __repr__(self):
        return f'<symh5 group "{self.name}" ({len(self)} members)>'


def _plain(dt):
    """numpy dtype without h5py metadata (element representation)"""
    return _np.dtype(dt.str) if dt.kind in "iufb" else dt


class File(Group):
    def __init__(self, name, mode="r", *args, **kwds):
        if isinstance(name, _ObjID):
            HLObject.__init__(self, name)
            return
        for k in kwds:
            if k not in ("driver", "libver", "userblock_size", "swmr", "rdcc_nslots", "rdcc_nbytes", "rdcc_w0",
                         "track_order", "fs_strategy", "fs_persist", "fs_threshold", "fs_page_size", "page_buf_size",
                         "min_meta_keep", "min_raw_keep", "locking", "alignment_threshold", "alignment_interval",
                         "meta_block_size"):
                raise TypeError(f"File() got an unexpected keyword argument '{k}'")
        if not isinstance(name, (str, bytes, os.PathLike)):
            raise Inconclusive("File() from a non-path object")
        key = _key(name)
        exists = key in _REG and os.path.exists(key)
        if mode == "r":
            if not exists:
                if os.path.exists(key):
                    raise OSError(f"Unable to synchronously open file (file signature not found)")
                raise FileNotFoundError(f"[Errno 2] Unable to synchronously open file (unable to open file: name = '{name}')")
            fnode, m = _REG[key], "r"
        elif mode == "r+":
            if not exists:
                if os.path.exists(key):
                    raise OSError(f"Unable to synchronously open file (file signature not found)")
                raise FileNotFoundError(f"[Errno 2] Unable to synchronously open file (unable to open file: name = '{name}')")
            fnode, m = _REG[key], "r+"
        elif mode in ("w-", "x"):
            if os.path.exists(key):
                raise FileExistsError(f"[Errno 17] Unable to synchronously create file (unable to open file: name = '{name}')")
            fnode, m = self._create(key), "r+"
        elif mode == "w":
            if key in _REG and any(r["open"] for r in _REG[key].opens):
                raise OSError("Unable to synchronously create file (unable to truncate a file which is already open)")
            fnode, m = self._create(key), "r+"
        elif mode == "a":
            if exists:
                fnode = _REG[key]
            elif os.path.exists(key) and os.path.getsize(key) > 0:
                raise OSError("Unable to synchronously open file (file signature not found)")
            else:
                fnode = self._create(key)
            m = "r+"
        else:
            raise ValueError("Invalid mode; must be one of r, r+, w, w-, x, a")
        fnode.opens = [r for r in fnode.opens if r["open"]]
        if m == "r+" and any(r["mode"] == "r" for r in fnode.opens):
            raise OSError("Unable to synchronously open file (file is already open for read-only)")
        if m == "r" and any(r["mode"] == "r+" for r in fnode.opens):
            m = "r+"  # h5py hands back the already open read-write file
        rec = dict(open=True, mode=m)
        fnode.opens.append(rec)
        HLObject.__init__(self, _ObjID(fnode, fnode.root, "/", m, rec))
        self._filename = os.fspath(name) if not isinstance(name, bytes) else name.decode()

    @staticmethod
    def _create(key):
        d = os.path.dirname(key)
        if d and not os.path.isdir(d):
            raise FileNotFoundError(f"[Errno 2] Unable to synchronously create file (unable to open file: name = '{key}')")
        open(key, "wb").close()
        fnode = _FileNode(key)
        _REG[key] = fnode
        return fnode

    @property
    def filename(self):
        return getattr(self, "_filename", self._id.fnode.path)

    @property
    def mode(self):
        return self._id.mode

    def close(self):
        if self._id.rec is not None:
            self._id.rec["open"] = False

    def flush(self):
        pass

    def __enter__(self):
        return self

    def __exit__(self, *a):
        self.close()
        return False

    def __repr__(self):
        return f'<symh5 file "{os.path.basename(self.filename)}" (mode {self.mode})>'


class Dataset(HLObject):
    def __init__(self, oid):
        super().__init__(oid)

    @property
    def _n(self):
        return self._id.node

    @property
    def dtype(self):
        return self._n.dtype

    @property
    def shape(self):
        return (len(self._n.data),)

    @property
    def maxshape(self):
        return self._n.maxshape if self._n.maxshape is not None else self.shape

    @property
    def size(self):
        return len(self._n.data)

    @property
    def ndim(self):
        return 1

    @property
    def fillvalue(self):
        return self._n.fillvalue if self._n.fillvalue is not None else 0

    @property
    def chunks(self):
        return None

    @property
    def compression(self):
        return None

    def __len__(self):
        return len(self._n.data)

    def len(self):
        return len(self._n.data)

    def __sarr__(self):
        d = self._n.data
        return d if isinstance(d, SArr) else _A(d)

    def __array__(self, dtype=None, copy=None):
        d = self._n.data
        r = d.to_real() if isinstance(d, SArr) else d
        if isinstance(d, SArr) and self._n.dtype.kind in "iufb":
            r = r.astype(_plain(self._n.dtype))
        return _np.asarray(r, dtype=dtype)

    def __iter__(self):
        return iter(self[:])

    def __getitem__(self, k):
        d = self._n.data
        if isinstance(k, tuple):
            if k == ():
                k = slice(None)
            elif len(k) == 1:
                k = k[0]
            else:
                raise TypeError("Argument sequence too long")
        if k is Ellipsis:
            k = slice(None)
        if isinstance(d, SArr):
            if isinstance(k, (SInt, builtins.int, _np.integer)) and not isinstance(k, bool):
                n = len(d.items)
                if isinstance(k, SInt):
                    if not bool((k >= -n) & (k < n)):
                        raise IndexError(f"Index out of range")
                else:
                    if not -n <= k < n:
                        raise IndexError(f"Index ({k}) out of range for (0-{n - 1})")
                return d[k]
            r = d[k]
            return r.copy() if isinstance(r, SArr) and not isinstance(r, symnp.MaskedSel) else r
        r = d[k]
        return r.view(CArr) if type(r) is _np.ndarray else r

    def __setitem__(self, k, v):
        if self._id.mode == "r":
            raise OSError("Can't synchronously write data (no write intent on file)")
        d = self._n.data
        dt = self._n.dtype
        if not isinstance(d, SArr):
            if isinstance(v, SArr):
                v = v.to_real()
            d[k] = v
            return
        n = len(d.items)
        if isinstance(k, tuple) and len(k) == 1:
            k = k[0]
        if k is Ellipsis or (isinstance(k, tuple) and k == ()):
            k = slice(None)
        if isinstance(k, slice):
            idx = range(*d._norm_slice(k, n).indices(n))
            # h5py refuses a selection that reaches beyond the current extent
            stop = k.stop
            if stop is not None and not is_sym(stop) and stop > n:
                pass  # h5py clips the selection like numpy; the shape check below reports mismatches
            items, sdt = _to_items(v, len(idx))
            if len(items) == 1 and len(idx) != 1:
                items = items * len(idx)
            if len(items) != len(idx):
                raise TypeError(f"Can't broadcast ({len(items)},) -> ({len(idx)},)")
            conv = _convert(items, dt, sdt)
            its = list(d._items)
            for i, x in zip(idx, conv):
                its[i] = x
            d._items = its
            return
        items, sdt = _to_items(v, None)
        if isinstance(k, (builtins.int, _np.integer, SInt)):
            d[k] = _convert(items[:1], dt, sdt)[0]
            return
        d[k] = SArr(_convert(items, dt, sdt), _plain(dt))

    def resize(self, size, axis=None):
        if self._id.mode == "r":
            raise OSError("no write intent on file")
        if isinstance(size, tuple):
            size = size[0]
        size = concretize(size)
        node = self._n
        if node.maxshape is None:
            raise TypeError("Only chunked datasets can be resized")
        ms = node.maxshape[0]
        if ms is not None and size > ms:
            raise ValueError(f"Unable to synchronously set dataset extent (dimension cannot exceed the existing maximal size (new: {size} max: {ms}))")
        if size < 0:
            raise ValueError("negative size")
        d = node.data
        n = len(d)
        fv = node.fillvalue if node.fillvalue is not None else 0
        if isinstance(d, SArr):
            if size <= n:
                d._items = d._items[:size]
            else:
                d._items = d._items + _convert([fv] * (size - n), node.dtype)
        else:
            if size <= n:
                node.data = d[:size].copy()
            else:
                node.data = _np.concatenate([d, _np.zeros(size - n, dtype=d.dtype)])

    def astype(self, dtype):
        return _AsType(self, dtype)

    def read_direct(self, dest, *a, **k):
        raise Inconclusive("Dataset.read_direct")

    def __repr__(self):
        return f'<symh5 dataset "{posixpath.basename(self.name)}": shape {self.shape}, type "{self.dtype.str}">'


class _AsType:
    def __init__(self, d, dtype):
        self.d, self.dtype = d, dtype

    def __getitem__(self, k):
        r = self.d[k]
        return r.astype(self.dtype) if hasattr(r, "astype") else r


# ---------------------------------------------------------------------------
# helpers for harnesses: build files directly / read raw storage
# ---------------------------------------------------------------------------
def raw(path):
    """the storage tree of an in-memory file, for oracles that look at the raw store"""
    return _REG[_key(path)]


def exists(path):
    return is_hdf5(path)
