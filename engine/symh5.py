import h5py as _h5
def __getattr__(name):
    return getattr(_h5, name)
