"""Driver: runs the checks of one property over all cases on a process pool, validates every
explored path against the real stack, replays counterexamples, writes evidence."""
from __future__ import annotations

import concurrent.futures as cf
import dataclasses
import hashlib
import importlib
import json
import math
import multiprocessing as mp
import os
import sys
import time
import traceback

VERIF = os.path.dirname(os.path.dirname(os.path.abspath(__file__)))
EXIT_OK, EXIT_VIOLATION, EXIT_INCONCLUSIVE = 0, 1, 2


class OracleFailure(Exception):
    """raised by a harness's real-stack run when the real code breaks the property"""


@dataclasses.dataclass
class Check:
    name: str
    cases: callable            # tier -> list of param dicts (each JSON-serialisable)
    sym: callable              # params -> observable (symbolic run of the real source)
    real: callable             # (params, inputs) -> observable (real stack, public API)
    doc: str = ""
    labels: tuple = ()         # cover labels that must be witnessed somewhere (vacuity guard)
    timeout: float = 600.0     # per case, seconds
    split_depth: int | None = None  # decision depth at which a case is split over workers
    path_timeout: float = 600.0  # wall-clock budget of one path (non-termination guard)
    validate_every: int = 1    # validate every k-th path on the real stack
    bounds: dict | None = None
    outside: tuple = ()
    stubs: tuple = ()


def _norm(x):
    """normalise an observable for comparison"""
    import numpy as np
    if isinstance(x, dict):
        return {str(k): _norm(v) for k, v in x.items()}
    if isinstance(x, (list, tuple)):
        return [_norm(v) for v in x]
    if isinstance(x, np.ndarray):
        return _norm(x.tolist())
    if isinstance(x, np.generic):
        x = x.item()
    if isinstance(x, bool) or x is None or isinstance(x, str):
        return x
    if isinstance(x, int):
        return x
    if isinstance(x, float):
        if math.isnan(x):
            return "nan"
        if x == int(x) and abs(x) < 2**53:
            return int(x)
        return float(x)
    if hasattr(x, "tolist"):
        return _norm(x.tolist())
    return repr(x)


def _same(a, b, tol=1e-9):
    if isinstance(a, dict) and isinstance(b, dict):
        return a.keys() == b.keys() and all(_same(a[k], b[k]) for k in a)
    if isinstance(a, list) and isinstance(b, list):
        return len(a) == len(b) and all(_same(x, y) for x, y in zip(a, b))
    if isinstance(a, (int, float)) and isinstance(b, (int, float)) and not isinstance(a, bool) and not isinstance(b, bool):
        return abs(a - b) <= tol * max(1.0, abs(a), abs(b))
    return a == b


def _find_check(prop, name):
    mod = importlib.import_module(f"harness.{prop.lower()}")
    for c in mod.CHECKS:
        if c.name == name:
            return mod, c
    raise KeyError(name)


class _RealTimeout(BaseException):
    pass


REAL_TIMEOUT = 300   # generous: a slow machine must never look like a hang


def _real_obs(check, params, inputs):
    """run the real stack; returns (kind, payload): ok/obs, oracle/msg, raises/name"""
    import signal

    def h(sig, frm):
        raise _RealTimeout()
    try:
        signal.signal(signal.SIGALRM, h)
        signal.setitimer(signal.ITIMER_REAL, REAL_TIMEOUT, 5.0)   # periodic: see symcore._alarm
    except ValueError:
        pass
    try:
        return "ok", _norm(check.real(params, inputs))
    except _RealTimeout:
        return "timeout", f"the operation did not terminate within {REAL_TIMEOUT}s on the real stack"
    except OracleFailure as ex:
        return "oracle", str(ex)[:500]
    except Exception as ex:  # noqa
        import traceback as _tb
        frames = _tb.extract_tb(ex.__traceback__)
        if not any("/cooler/" in fr.filename and "/verif/" not in fr.filename for fr in frames):
            # raised by the harness's own real-side code, never reached cooler: not an observation about cooler
            return "harness", f"{type(ex).__name__}: {str(ex)[:200]} ({frames[-1].filename}:{frames[-1].lineno})" if frames else repr(ex)
        return "raises", f"{type(ex).__name__}: {str(ex)[:200]}"
    finally:
        try:
            signal.setitimer(signal.ITIMER_REAL, 0)
        except ValueError:
            pass


def run_job(job):
    """worker entry point: one (check, case[, prefix]) symbolic exploration"""
    prop, cname, params, tier, seed, mutations, prefix, mode = job
    sys.path.insert(0, VERIF) if VERIF not in sys.path else None
    import warnings
    warnings.simplefilter("ignore")
    try:  # a worker must not outlive the driver (an orphan stuck in a mutated loop once ran for hours)
        import ctypes
        import signal
        ctypes.CDLL("libc.so.6", use_errno=True).prctl(1, signal.SIGKILL)
    except Exception:  # noqa
        pass
    t0 = time.time()
    out = dict(check=cname, params=params, prefix=prefix is not None, status="ok", violations=[], samples=[],
               validated=0, divergences=[], labels={}, stats={}, wall_s=0.0, functions=[], nontrivial=0,
               prefixes=None, error=None)
    try:
        from engine import loader, symcore
        loader.install()
        if mutations:
            loader.unload()
            loader.MUTATIONS.clear()
            for rel, old, new in mutations:
                loader.MUTATIONS.setdefault(rel, []).append((old, new))
        loader.start_coverage()
        mod, check = _find_check(prop, cname)
        CTX = symcore.CTX
        CTX.reset_stats()
        CTX.violations = []
        CTX.covered = {}
        CTX.seed = seed
        CTX.cross_every = int(os.environ.get("VERIF_CROSS_EVERY", "40" if tier == "thorough" else "0") or 0) if mode != "selftest" else 0
        deadline = t0 + check.timeout
        state = dict(n=0)
        pcs = set()

        def on_path(m, res, labels):
            state["n"] += 1
            if labels:
                out["nontrivial"] += 1
            if mode == "selftest":
                return
            k = state["n"]
            if (k - 1) % max(1, (params or {}).get("validate_every", check.validate_every)) != 0:
                return
            inputs = symcore.model_inputs(m)
            try:
                sobs = _norm(symcore.eval_value(m, res))
            except symcore.Inconclusive as ex:
                out["divergences"].append(dict(inputs=inputs, why=f"cannot evaluate symbolic observable: {ex}"))
                return
            kind, robs = _real_obs(check, params, inputs)
            if kind == "timeout":
                # the symbolic run of this path returned, so this is a slow machine, not a hang: inconclusive, never a violation
                if len(out["divergences"]) < 5:
                    out["divergences"].append(dict(inputs=inputs, why="real-stack validation run timed out: " + robs))
                return
            if kind == "harness":
                if len(out["divergences"]) < 5:
                    out["divergences"].append(dict(inputs=inputs, why="harness error on the real side: " + robs))
                return
            if kind == "oracle":
                CTX.violations.append(dict(msg="real stack: " + robs, inputs=inputs, notes=[], path=[], confirmed=True))
                return
            if kind == "raises":
                robs = ["raises", robs.split(":")[0]]
            if not _same(sobs, robs):
                if len(out["divergences"]) < 5:
                    out["divergences"].append(dict(inputs=inputs, sym=sobs, real=robs, why="observable mismatch"))
                return
            out["validated"] += 1
            if len(out["samples"]) < 2:
                out["samples"].append(dict(check=cname, case=params, inputs=inputs, observable=_trim(sobs)))

        if mode == "split":
            out["prefixes"] = symcore.explore(lambda: check.sym(params), split_depth=check.split_depth,
                                              on_path=on_path, deadline=deadline, path_timeout=check.path_timeout)
        else:
            symcore.explore(lambda: check.sym(params), prefix=prefix, on_path=on_path, deadline=deadline,
                            path_timeout=check.path_timeout if mode != "selftest" else min(20, check.path_timeout),
                            stop_on_violation=(mode == "selftest"))
        out["stats"] = dict(CTX.stats)
        out["labels"] = {k: 1 for k in CTX.covered}
        # confirm symbolic counterexamples on the real stack
        for v in CTX.violations:
            if v.get("confirmed") or mode == "selftest":
                v["confirmed"] = True
                out["violations"].append(v)
                continue
            kind, robs = _real_obs(check, params, v["inputs"])
            v["real"] = [kind, robs]
            if kind == "oracle":
                v["confirmed"] = True
            elif kind == "raises" and v["msg"].startswith("unexpected") and robs.split(":")[0] in v["msg"]:
                v["confirmed"] = True
            elif kind == "raises":
                # the real function of a harness handles every exception the property allows itself; one that escapes it on the
                # counterexample's inputs is the real code failing on an input it must accept (the model predicted a different
                # symptom of the same defect, e.g. a malformed store where HDF5 refuses the write)
                v["confirmed"] = True
                v["msg"] += f"  [real stack on these inputs: {robs[:160]}]"
            elif kind == "timeout" and v["msg"].startswith("non-termination"):
                v["confirmed"] = True   # the symbolic path did not return either: a genuine non-termination candidate
            else:
                v["confirmed"] = False
            out["violations"].append(v)
        out["functions"] = loader.coverage_report()
        out["sources"] = dict(loader.LOADED)
    except BaseException as ex:  # noqa
        from engine import symcore
        out["stats"] = dict(symcore.CTX.stats)
        if isinstance(ex, symcore.Inconclusive):
            out["status"] = "inconclusive"
            out["error"] = str(ex)
        else:
            out["status"] = "error"
            out["error"] = "".join(traceback.format_exception(type(ex), ex, ex.__traceback__))[-3000:]
    out["wall_s"] = round(time.time() - t0, 3)
    return out


def _trim(o, n=40):
    s = json.dumps(o)
    if len(s) > 600:
        return s[:600] + "..."
    return o


# ---------------------------------------------------------------------------
def load_known():
    p = os.path.join(VERIF, "known_findings.json")
    if not os.path.exists(p):
        return []
    return json.load(open(p))


_IGNORE_KNOWN = False


def known_active(key):
    """True if finding `key` is listed as known (not fixed): harnesses exclude its domain."""
    if _IGNORE_KNOWN or os.environ.get("VERIF_IGNORE_KNOWN"):
        return False
    for e in load_known():
        if e.get("key") == key and e.get("status") == "known":
            return True
    return False


def main(argv=None):
    import argparse
    ap = argparse.ArgumentParser()
    ap.add_argument("prop")
    ap.add_argument("--tier", default=os.environ.get("VERIF_TIER", "quick"), choices=["quick", "thorough"])
    ap.add_argument("--replay")
    ap.add_argument("--selftest", action="store_true")
    ap.add_argument("--only", help="run only the named check(s), comma separated")
    ap.add_argument("--jobs", type=int, default=int(os.environ.get("VERIF_JOBS", "0")) or os.cpu_count())
    ap.add_argument("--no-evidence", action="store_true")
    args = ap.parse_args(argv)
    prop = args.prop.upper()
    seed = int(os.environ.get("VERIF_SEED", "0") or 0)
    if VERIF not in sys.path:
        sys.path.insert(0, VERIF)
    import warnings
    warnings.simplefilter("ignore")
    mod = importlib.import_module(f"harness.{prop.lower()}")
    if args.replay:
        return do_replay(prop, mod, args.replay)
    if args.selftest:
        return do_selftest(prop, mod, args)
    return do_check(prop, mod, args, seed)


def _pool(n):
    return cf.ProcessPoolExecutor(max_workers=n, mp_context=mp.get_context("spawn"))


def _run_jobs(jobs, njobs, budget=None):
    results = []
    if not jobs:
        return results
    with _pool(min(njobs, len(jobs))) as ex:
        futs = [ex.submit(run_job, j) for j in jobs]
        for f in cf.as_completed(futs):
            try:
                results.append(f.result())
            except Exception as e:  # worker died
                results.append(dict(check="?", params=None, status="error", error=f"worker failure: {e}",
                                    violations=[], samples=[], validated=0, divergences=[], labels={},
                                    stats={}, wall_s=0, functions=[], nontrivial=0, prefixes=None))
    return results


def do_check(prop, mod, args, seed):
    t0 = time.time()
    tier = args.tier
    only = set(args.only.split(",")) if args.only else None
    checks = [c for c in mod.CHECKS if only is None or c.name in only]
    # phase 1: split cases that ask for it
    jobs = []
    split_jobs = []
    for c in checks:
        for p in c.cases(tier):
            if c.split_depth:
                split_jobs.append((prop, c.name, p, tier, seed, None, None, "split"))
            else:
                jobs.append((prop, c.name, p, tier, seed, None, None, "run"))
    results = []
    sres = _run_jobs(split_jobs, args.jobs)
    for r in sres:
        results.append(r)
        for pf in (r.get("prefixes") or []):
            jobs.append((prop, r["check"], r["params"], tier, seed, None, pf, "run"))
    # largest cases first
    results += _run_jobs(jobs, args.jobs)
    return finish(prop, mod, checks, results, tier, seed, t0, args)


def finish(prop, mod, checks, results, tier, seed, t0, args):
    agg = dict(paths=0, aborted=0, decisions=0, queries=0, solver_s=0.0, obligations=0, discharged=0,
               concretized=0, max_depth=0, cross_checked=0, cross_agree=0, cross_unsupported=0, cross_s=0.0)
    validated = 0
    nontrivial = 0
    samples = []
    labels = set()
    funcs = {}
    sources = {}
    problems = []
    violations = []
    per_check = {}
    for r in results:
        st = r.get("stats") or {}
        for k in agg:
            if k == "max_depth":
                agg[k] = max(agg[k], st.get(k, 0))
            else:
                agg[k] += st.get(k, 0)
        validated += r.get("validated", 0)
        nontrivial += r.get("nontrivial", 0)
        pc = per_check.setdefault(r["check"], dict(cases=0, paths=0, queries=0, obligations=0, wall_s=0.0, validated=0))
        pc["cases"] += 1
        pc["paths"] += st.get("paths", 0)
        pc["queries"] += st.get("queries", 0)
        pc["obligations"] += st.get("obligations", 0)
        pc["wall_s"] = round(pc["wall_s"] + r.get("wall_s", 0), 2)
        pc["validated"] += r.get("validated", 0)
        if len(samples) < 6:
            samples.extend(r.get("samples", [])[:1])
        labels.update(r.get("labels", {}))
        for f in r.get("functions", []):
            k = (f["file"], f["function"], f["line"])
            funcs[k] = max(funcs.get(k, 0), f["executed_lines"])
        sources.update(r.get("sources", {}))
        if r["status"] != "ok":
            problems.append(f"{r['check']} {json.dumps(r['params'])}: {r['status']}: {r.get('error')}")
        for d in r.get("divergences", []):
            problems.append(f"{r['check']} {json.dumps(r['params'])}: shim/real divergence: {json.dumps(d)[:800]}")
        for v in r.get("violations", []):
            v = dict(v, check=r["check"], params=r["params"])
            if v.get("confirmed"):
                violations.append(v)
            else:
                problems.append(f"{r['check']} {json.dumps(r['params'])}: counterexample did not reproduce on the real stack: "
                                f"{v['msg']} inputs={json.dumps(v['inputs'])[:400]} real={v.get('real')}")
    missing = []
    for c in checks:
        for lab in c.labels:
            if lab not in labels:
                missing.append(f"{c.name}:{lab}")
    if missing:
        problems.append("vacuity: cover labels never witnessed: " + ", ".join(missing))

    # known findings
    known_lines = []
    for e in load_known():
        if e.get("property") != prop or e.get("status") != "known":
            continue
        w = e.get("witness")
        still = True
        if w:
            try:
                global _IGNORE_KNOWN
                _, chk = _find_check(prop, w["check"])
                _IGNORE_KNOWN = True
                try:
                    kind, robs = _real_obs(chk, w["params"], w["inputs"])
                finally:
                    _IGNORE_KNOWN = False
                still = kind in ("oracle",) or (kind == "raises" and e.get("raises") and robs.startswith(e["raises"]))
                if kind == "timeout":
                    problems.append(f"known finding {e['key']}: witness replay timed out")
            except Exception as ex:  # noqa
                problems.append(f"known finding {e['key']}: witness could not be replayed: {ex}")
        if still:
            known_lines.append(f"KNOWN-FINDING: property={prop} {e['key']} {e['what']}")
        else:
            print(f"note: known finding {e['key']} no longer reproduces (stale entry)")

    wall = round(time.time() - t0, 2)
    rc = EXIT_OK
    replay_paths = []
    if violations:
        rc = EXIT_VIOLATION
        os.makedirs(os.path.join(VERIF, "replays"), exist_ok=True)
        seen = set()
        for v in violations:
            key = hashlib.sha1(json.dumps([v["check"], v["params"], v["inputs"]], sort_keys=True).encode()).hexdigest()[:10]
            if key in seen:
                continue
            seen.add(key)
            path = os.path.join(VERIF, "replays", f"{prop}-{v['check']}-{key}.json")
            json.dump(dict(property=prop, check=v["check"], params=v["params"], inputs=v["inputs"], message=v["msg"],
                           real=v.get("real"), how="./check %s --replay %s" % (prop, path)), open(path, "w"), indent=1)
            replay_paths.append((v, path))
    elif problems:
        rc = EXIT_INCONCLUSIVE

    if not args.no_evidence:
        write_evidence(prop, mod, checks, tier, seed, agg, validated, nontrivial, samples, labels, funcs, sources,
                       per_check, problems, violations, known_lines, wall)
    for line in known_lines:
        print(line)
    for v, path in replay_paths:
        print(f"counterexample [{v['check']}] {v['msg']}  inputs={json.dumps(v['inputs'])[:300]}")
        print(f"VIOLATION property={prop} replay={path}")
    for p in problems:
        print("INCONCLUSIVE:", p[:1500])
    slow = sorted(results, key=lambda r: -r.get("wall_s", 0))[:3]
    print("slowest jobs: " + "; ".join(f"{r['check']} {json.dumps(r['params'])} {r.get('wall_s')}s {(r.get('stats') or {}).get('paths', 0)}p" for r in slow))
    print(f"{prop} tier={tier}: {len(results)} jobs, {agg['paths']} paths, {agg['queries']} queries, "
          f"{agg['obligations']} obligations ({agg['discharged']} discharged), {validated} paths validated on the real stack, "
          f"solver {agg['solver_s']:.1f}s, wall {wall}s -> exit {rc}")
    return rc


def write_evidence(prop, mod, checks, tier, seed, agg, validated, nontrivial, samples, labels, funcs, sources,
                   per_check, problems, violations, known_lines, wall):
    fl = [dict(file=k[0], function=k[1], line=k[2], executed_lines=v) for k, v in sorted(funcs.items())]
    bounds = {c.name: c.bounds for c in checks if c.bounds}
    ev = dict(
        property_id=prop, tier=tier, seed=seed, level="model_checking",
        coverage=dict(
            states=agg["paths"], transitions=agg["decisions"], traces_validated_against_impl=validated,
            samples=samples or [dict(note="no completed path")],
            obligations=agg["obligations"], discharged=agg["discharged"],
            evaluations=agg["paths"], distinct_nontrivial=nontrivial,
            rule="one evaluation = one feasible execution path of the real cooler source under symbolic inputs "
                 "(distinct path conditions by construction of the depth-first explorer); a path is non-trivial when "
                 "its witness model satisfies at least one of the harness's cover labels (counted conservatively: a path some other model of which "
                 "would satisfy a label is not counted)",
            exhaustive=not problems,
            solver="z3 %s" % _z3ver(), queries=agg["queries"], solver_s=round(agg["solver_s"], 2),
            aborted_paths=agg["aborted"], max_decision_depth=agg["max_depth"],
            concretizations=agg["concretized"],
            second_solver=dict(name="cvc5 %s" % _cvc5ver(), obligations_rechecked=agg["cross_checked"], agree=agg["cross_agree"],
                               unsupported_or_timeout=agg["cross_unsupported"], seconds=round(agg["cross_s"], 1),
                               rule="thorough tier: every 40th obligation (pc and negated assertion) exported as SMT-LIB2 and re-discharged; a disagreement is inconclusive"),
            checks=per_check, bounds=bounds,
            cover_labels=sorted(labels),
            functions_encoded=fl, source_sha1=sources,
            stubs=sorted({s for c in checks for s in c.stubs}),
            outside_bound=sorted({s for c in checks for s in c.outside}),
            inconclusive=problems[:20], known_findings=known_lines,
        ),
        assumptions=sorted({s for c in checks for s in c.stubs}) + [
            "Python ints modelled as mathematical integers (values stay far below 2^31 within the bounds)",
            "z3 is trusted; every counterexample is replayed on the real numpy/pandas/h5py stack before it is reported",
        ],
        wall_s=wall, violations=len(violations),
    )
    os.makedirs(os.path.join(VERIF, "evidence"), exist_ok=True)
    with open(os.path.join(VERIF, "evidence", f"{prop}.json"), "w") as f:
        json.dump(ev, f, indent=1, default=str)


def _cvc5ver():
    try:
        import cvc5
        return cvc5.__version__
    except Exception:  # noqa
        return "?"


def _z3ver():
    try:
        import z3
        return z3.get_version_string()
    except Exception:  # noqa
        return "?"


def do_replay(prop, mod, path):
    r = json.load(open(path))
    _, chk = _find_check(prop, r["check"])
    global _IGNORE_KNOWN
    _IGNORE_KNOWN = True
    kind, robs = _real_obs(chk, r["params"], r["inputs"])
    print(f"replay {path}: check={r['check']} params={r['params']} inputs={r['inputs']}")
    print(f"  recorded: {r.get('message')}")
    print(f"  real stack now: {kind}: {robs}")
    if kind == "oracle" or (kind == "timeout" and str(r.get("message", "")).startswith("non-termination")) \
            or (kind == "raises" and str(r.get("message", "")).startswith("unexpected")):
        print(f"VIOLATION property={prop} replay={path}")
        return EXIT_VIOLATION
    return EXIT_OK


def do_selftest(prop, mod, args):
    """in-memory mutants: each non-equivalent one must be refuted by the symbolic run"""
    muts = getattr(mod, "MUTANTS", [])
    ok = True
    for mu in muts:
        only = set(mu.get("checks") or [c.name for c in mod.CHECKS])
        jobs = []
        for c in mod.CHECKS:
            if c.name in only:
                for p in c.cases(args.tier):
                    jobs.append((prop, c.name, p, args.tier, 0, [(mu["file"], mu["old"], mu["new"])], None, "selftest"))
        res = _run_jobs(jobs, args.jobs)
        caught = any(r["violations"] for r in res)
        errs = [r["error"] for r in res if r["status"] != "ok"]
        exp = mu.get("expect", "caught")
        verdict = "caught" if caught else ("error" if errs else "missed")
        flag = "ok" if verdict == exp or (exp == "caught" and caught) else "UNEXPECTED"
        if flag != "ok":
            ok = False
        first = next((r["violations"][0] for r in res if r["violations"]), None)
        print(f"[{flag}] {mu['name']}: {verdict} (expected {exp})" + (f" e.g. {first['msg']} {json.dumps(first['inputs'])[:200]}" if first else "")
              + (f" errors: {errs[0][-300:]}" if errs and not caught else ""))
    return 0 if ok else 2
