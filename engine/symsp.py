"""scipy.sparse stand-in (stub E5): coo_matrix whose toarray() sums duplicates."""
import numpy as _np
import scipy.sparse as _sp

from . import symnp
from .symnp import SArr, _sym, _tolist
from .symcore import ite, SBool, concretize


def __getattr__(name):
    return getattr(_sp, name)


class SCoo:
    def __init__(self, data, row, col, shape):
        self.data, self.row, self.col = symnp._A(data), symnp._A(row), symnp._A(col)
        self.shape = (concretize(shape[0]), concretize(shape[1]))

    def toarray(self):
        nr, nc = self.shape
        isf = self.data.dtype.kind == "f"
        out = []
        for a in range(nr):
            for b in range(nc):
                acc = 0.0 if isf else 0
                for v, r, c in zip(self.data.items, self.row.items, self.col.items):
                    cond = symnp._and(r == a, c == b)
                    if isinstance(cond, SBool):
                        acc = acc + ite(cond, v, 0.0 if isf else 0)
                    elif cond:
                        acc = acc + v
                out.append(acc)
        return SArr(out, self.data.dtype, (nr, nc))

    todense = toarray

    def tocoo(self):
        return self

    @property
    def nnz(self):
        return len(self.data.items)


def coo_matrix(arg, shape=None, **kw):
    if isinstance(arg, tuple) and len(arg) == 2 and isinstance(arg[1], tuple):
        data, (row, col) = arg
        if _sym(data) or _sym(row) or _sym(col) or _sym(list(shape or ())):
            return SCoo(data, row, col, shape)
    return _sp.coo_matrix(arg, shape=shape, **kw)
