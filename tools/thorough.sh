#!/bin/sh
# sizing run of the thorough tier (no evidence written): one line per property with exit code and wall time
cd "$(dirname "$0")/.." || exit 2
for p in "$@"; do
  s=$(date +%s)
  ./check "$p" --tier thorough --no-evidence > "/tmp/thorough_$p.log" 2>&1
  rc=$?
  echo "$p exit=$rc wall=$(( $(date +%s) - s ))s $(tail -1 /tmp/thorough_$p.log | cut -c1-220)"
done
