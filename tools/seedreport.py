#!/usr/bin/env python3
"""seeded/README.md from seeded/*/meta.json"""
import json, os, glob
HERE = os.path.dirname(os.path.dirname(os.path.abspath(__file__)))
rows = []
for d in sorted(glob.glob(os.path.join(HERE, "seeded", "*", ""))):
    mp = os.path.join(d, "meta.json")
    if not os.path.exists(mp):
        continue
    m = json.load(open(mp))
    det = m.get("detection", {})
    verdict = []
    for pid, r in det.items():
        if isinstance(r, dict):
            verdict.append(f"{pid}: " + {0: "missed", 1: "VIOLATION", 2: "inconclusive"}.get(r.get("exit"), str(r.get("exit"))))
    first = ""
    for pid, r in det.items():
        if isinstance(r, dict) and r.get("first_counterexamples"):
            first = r["first_counterexamples"][0][:160].replace("|", "/")
            break
    rows.append((os.path.basename(d.rstrip("/")), m.get("property", ""), (m.get("what") or "").replace("|", "/")[:200], (m.get("needs") or "").replace("|", "/")[:160],
                 "; ".join(verdict), first, m.get("history", "")))
with open(os.path.join(HERE, "seeded", "README.md"), "w") as f:
    f.write("# Seeded changes\n\nEach directory holds `patch.diff` (applies to /repo's HEAD), `demo.py` (exit 0 / PASS on the clean tree, non-zero / FAIL with the patch), "
            "`meta.json` (what it breaks, what it needs to manifest, what was run). All were written by sub-agents that saw only the property text and a scratch "
            "worktree, then confirmed here: patch applies, unedited suite still 134 passed / 1 pre-existing failure, demo flips. `detection` = `git -C /repo apply`, "
            "`./check <id> --tier quick`, `git -C /repo checkout -- .`.\n\n")
    f.write("| seed | property | change | needs | checks (quick tier) | first counterexample reported | history |\n|---|---|---|---|---|---|---|\n")
    for r in rows:
        f.write("| " + " | ".join(str(x) for x in r) + " |\n")
print(len(rows), "seeds")
