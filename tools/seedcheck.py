#!/usr/bin/env python3
"""Confirm a seeded change and run the checks against it.

  tools/seedcheck.py confirm <seed_dir> <worktree>   # demo passes clean / fails patched, suite still passes (in a scratch worktree)
  tools/seedcheck.py detect  <seed_dir> [Cxx ...]    # apply to /repo, run ./check for the property (and extra ids), undo
Results are merged into <seed_dir>/meta.json.
"""
import json, os, re, subprocess, sys, time

VERIF = os.path.dirname(os.path.dirname(os.path.abspath(__file__)))


def sh(cmd, cwd=None, env=None, timeout=3600):
    r = subprocess.run(cmd, shell=True, cwd=cwd, env=env, capture_output=True, text=True, timeout=timeout)
    return r.returncode, (r.stdout + r.stderr)


def load_meta(d):
    p = os.path.join(d, "meta.json")
    return json.load(open(p)) if os.path.exists(p) else {}


def save_meta(d, m):
    json.dump(m, open(os.path.join(d, "meta.json"), "w"), indent=1)


def confirm(d, wt):
    d = os.path.abspath(d)
    tmpd = wt.rstrip("/") + "_tmp"
    os.makedirs(tmpd, exist_ok=True)
    env = dict(os.environ, PYTHONPATH=os.path.join(wt, "src"), TMPDIR=tmpd)
    patch = os.path.join(d, "patch.diff")
    demo = os.path.join(d, "demo.py")
    sh("git checkout -- . && git clean -fdq", cwd=wt)
    rc0, out0 = sh(f"/venv/bin/python {demo}", cwd=wt, env=env, timeout=900)
    rca, outa = sh(f"git apply {patch}", cwd=wt)
    if rca != 0:
        m = load_meta(d); m["confirmed"] = False; m["confirm_note"] = "patch does not apply: " + outa[-300:]; save_meta(d, m); return m
    rc1, out1 = sh(f"/venv/bin/python {demo}", cwd=wt, env=env, timeout=900)
    rct, outt = sh("/venv/bin/python -m pytest -q -p no:cacheprovider --timeout=900 tests 2>&1 | grep -E '[0-9]+ (passed|failed)' | tail -2", cwd=wt, env=env, timeout=3000)
    sh("git checkout -- . && git clean -fdq", cwd=wt)
    summ = [l for l in outt.splitlines() if "passed" in l or "failed" in l]
    summ = summ[-1] if summ else outt[-200:]
    mt = re.search(r"(\d+) failed, (\d+) passed", summ) or re.search(r"(\d+) passed", summ)
    ok_suite = bool(mt) and ("134 passed" in summ) and ("1 failed" in summ)
    m = load_meta(d)
    m.pop("confirm_note", None)
    m.update(confirmed=bool(rc0 == 0 and rc1 != 0 and ok_suite), demo_clean_exit=rc0, demo_patched_exit=rc1, suite_with_patch=summ.strip(),
             demo_patched_tail=out1.strip()[-400:], demo_clean_tail=out0.strip()[-200:])
    save_meta(d, m)
    return m


def detect(d, extra, repo="/repo"):
    """repo=/repo: the literal procedure of the brief. repo=<worktree>: same checks with VERIF_REPO pointing at a scratch worktree
    (used while a long run occupies /repo; the checks load both the symbolic source and the real stack from that checkout)."""
    d = os.path.abspath(d)
    m = load_meta(d)
    prop = m.get("property") or os.path.basename(d.rstrip("/")).split("_")[0]
    patch = os.path.join(d, "patch.diff")
    rc, out = sh("git status --porcelain", cwd=repo)
    if out.strip():
        print(f"refusing: {repo} has local changes"); sys.exit(2)
    rca, outa = sh(f"git apply {patch}", cwd=repo)
    envx = dict(os.environ, VERIF_REPO=repo) if repo != "/repo" else None
    res = {}
    try:
        if rca != 0:
            res["error"] = "patch does not apply to /repo: " + outa[-200:]
        else:
            for pid in [prop] + [x for x in extra if x != prop]:
                t = time.time()
                rc, out = sh(f"./check {pid} --tier quick --no-evidence", cwd=VERIF, timeout=7200, env=envx)
                viol = [l for l in out.splitlines() if l.startswith("counterexample")][:3]
                inc = [l for l in out.splitlines() if l.startswith("INCONCLUSIVE")][:2]
                res[pid] = dict(exit=rc, wall_s=round(time.time() - t, 1), first_counterexamples=[v[:400] for v in viol], inconclusive=[x[:300] for x in inc])
    finally:
        sh("git checkout -- .", cwd=repo)
    m["property"] = prop
    hist = m.setdefault("runs", [])
    hist.append(dict(at=time.strftime("%Y-%m-%d %H:%M"), verif_commit=sh("git rev-parse --short HEAD", cwd=VERIF)[1].strip(),
                     applied_to=repo, verdicts={k: v.get("exit") for k, v in res.items() if isinstance(v, dict)}))
    m.setdefault("detection", {}).update(res)
    m["detected_by"] = sorted(k for k, v in m["detection"].items() if isinstance(v, dict) and v.get("exit") == 1)
    save_meta(d, m)
    return m


if __name__ == "__main__":
    if sys.argv[1] == "confirm":
        print(json.dumps(confirm(sys.argv[2], sys.argv[3]), indent=1)[:1500])
    elif sys.argv[1] == "detect_wt":
        print(json.dumps(detect(sys.argv[2], sys.argv[4:], repo=sys.argv[3]), indent=1)[:3000])
    else:
        print(json.dumps(detect(sys.argv[2], sys.argv[3:]), indent=1)[:3000])
