#!/usr/bin/env python3
"""Regenerates /verif/MANIFEST.json from the table below (single source of truth)."""
import json, os
HERE = os.path.dirname(os.path.dirname(os.path.abspath(__file__)))

TECH = "bounded symbolic execution of the real cooler source (own z3-based path explorer over numpy/pandas/h5py shims); solver verdict per path; counterexamples replayed on the real stack"
NOTE = ("Trusted: z3; the shim models of numpy/pandas/h5py operations on symbolic data (cross-validated on every explored path "
        "against the real stack: same inputs, same public-API call, same observable); Python ints and 64-bit array words as mathematical "
        "integers (no harness value reaches 2^62), narrower integer types wrap modulo 2^k. "
        "Bounds and stubs per check are listed in the evidence file.")

CLAIMED = {
    "C01": ("For every sorted record stream within the bounds (<=3 chromosomes, n<=4 bins, K<=4 records, every chunking incl. empty chunks, both modes, "
            "iterable/DataFrame/dict/dense-array input; one-piece tables in any row order; ids in int8/int64; loader reused; an earlier creation in the same process with another dtype for a same-named column) the real create_cooler -> "
            "Cooler.pixels/matrix/info source returns exactly the records and the (completed) matrix given; metadata documents are compared concretely.", "4/C01"),
    "C02": ("The schema predicate (column lengths = nnz, strict order, range, triangularity, both offset indexes = run-length indexes, nbins/nchroms/sum/"
            "bin-type/bin-size consistent) is proved on the raw store after ordered creation from every stream within the bounds, and the index builder is "
            "decided for every block size with its 1e6 block made symbolic; integer value columns handed over in another integer type are stored exactly or "
            "refused over the whole range of that type; ensure_sorted repairs any in-chunk order under every flag combination.", "4/C02"),
    "C04": ("Cooler.extent/offset, bins()/pixels()/matrix() fetch, GenomeSegmentation.fetch and bedslice are executed on bin tables with symbolic widths "
            "(fixed-width path taken through the real get_binsize; variable path) and symbolic (chrom, start, end): selected bins == overlapping bins of that "
            "chromosome; pixel and two-region matrix fetch == index queries on the extents; also on chromosomes as long as int32 coordinates allow (bin widths 6e8, 1e9), and on a concrete chromosome of thousands of bins with the bounds at the starts of bins numbered k*512 / k*1000 (scale case).", "4/C04"),
    "C05": ("sanitize_records, sanitize_pixels and aggregate_records run on symbolic records (chromosome incl. unlisted, unbounded positions, sided field) "
            "over bin tables with symbolic widths: rejected iff an anchor is outside its chromosome, dropped iff unlisted (or tril under drop), otherwise "
            "assigned to the bins containing the anchors, mirrored with its sided fields, counted once; chromosome columns given as names or as categoricals in another category order.", "4/C05"),
    "C06": ("create_cooler(ordered=False) executed end to end on symbolic chunks with solver-chosen merge buffer and fan-in (one- and two-pass): output "
            "== per-pixel sum of all records and schema-valid, also for chunks in arbitrary internal order with sorting requested (dicts and frames with "
            "permuted labels), float value columns and a pixel listed twice inside a chunk with the duplicate check off; merge_breakpoints decided at function level.", "4/C06"),
    "C07": ("merge_coolers executed on k arbitrary valid inputs with symbolic buffer: exact per-pixel aggregate (sum/max), nothing missing or extra, "
            "total preserved, schema-valid, mixed input dtypes, signed values (stored zeros, counts that cancel); a result outside the column type (any width/signedness pair) is an error, never a wrapped "
            "number; acceptance <=> equal bin tables and storage modes; 205 inputs with a mean aggregate (scale case).", "4/C07"),
    "C08": ("coarsen_cooler executed on arbitrary valid inputs (fixed and variable bins, factor and chunk size solver-chosen, batched map): new bin table "
            "and per-block exact aggregates, totals, validity; block sums near the type limit are exact or refused; float counts keep their type with no / "
            "partial dtypes; genomes longer than 2^31 bp; composition (k1 then k2 == k1*k2) and commutation with merging executed end to end at small bounds, plus the div-lemma for unbounded x.", "4/C08"),
    "C09": ("get_multiplier_sequence decided on symbolic resolution sets; zoomify_cooler executed end to end with one or two symbolic bases: layout, "
            "recognition, every level equals direct coarsening of a base, bases are faithful copies, non-derivable sets refused.", "4/C09"),
    "C10": ("Decided part only: in a converged run of the real balance_cooler (genome-wide, cis, trans; <=2 sweeps) the NaN bins are exactly the union of the "
            "documented filters min_nnz/min_count/ignore_diags/blacklist/MAD-max (or a whole scope without data) and every other bin has a finite positive "
            "weight, for symbolic thresholds and solver-enumerated small pixel tables (MAD-max: log/exp/median evaluated on the enumerated data, bins on the "
            "cut-off or with zero marginal not asserted); the bins `cooler balance --blacklist` hands over are exactly those overlapping the BED interval (symbolic bounds). NOT claimed: flatness after iterating from an arbitrary start (floating-point loop), see DESIGN "
            "4/C10 and 5.", "4/C10"),
    "C11": ("balance_cooler run twice symbolically (single span + builtin map vs solver-chosen chunk size + arbitrarily permuting map): weights and stats "
            "equal up to 1e-9, spans tile the pixel table, every pixel visited once, repeated run identical; one sweep equals the dense "
            "iterative-correction step.", "4/C11"),
    "C12": ("Cooler.matrix(balance=...) dense/sparse/pixel output on symbolic pixels, windows and weight columns (exact reals + NaN flag): value == raw * "
            "f(w[row]) * f(w[col]) with f = id or reciprocal (default for KR/VC/VC_SQRT names), NaN iff either weight is NaN (pixel output with and without "
            "the pixel ids as labels); missing column => ValueError; dump -b agrees.", "4/C12"),
    "C13": ("ordered and unordered creation from free (unconstrained) symbolic records or with an iterator failure before a solver-chosen chunk: error <=> "
            "some chunk is invalid; afterwards the destination (new file / new group / existing non-cooler group / nested group) is not recognised and not "
            "listed, and a neighbouring collection (also one sharing the destination's top-level group) with symbolic contents plus the file attributes are bit-identical in the raw store; coarsen/merge reading a "
            "symmetric-upper source that holds lower-triangle records fail or give a valid result, never an invalid one; ids outside the table are refused whatever narrower id dtype is declared.", "4/C13"),
    "C14": ("chroms()/bins()/pixels() selectors sliced with symbolic bounds and column subsets, and annotate() on arbitrary pixel subsets against whole / "
            "selector / partial bin tables (both strategy branches, enum and integer chromosome ids, explicit labels and iloc-derived range labels), single "
            "column by name on enum- and integer-encoded files, a column stored after the Cooler object was made, on coolers with symbolic table contents.", "4/C14"),
    "C15": ("all sequences of 2 (thorough: 3) operations out of create(a/w)/cp/mv/ln hard/soft/external/overwrite over two files are executed on the "
            "in-memory HDF5 model with symbolic contents against a reference namespace model (contents include an extra bin column and attributes on inner objects; read-back from another working directory); every explored path is replayed on real h5py.", "4/C15"),
    "C16": ("Decided parts: cooler dump's function body with solver-chosen flags/regions/chunk size on symbolic pixels (rows == the records the options "
            "describe, --columns honoured); dump -> load round trip (COO and bedGraph-2D, zero/one-based, symbolic chunk sizes, BED bins, digit names) under the "
            "to_csv/read_csv identity stub with the real text path run on every explored path; cload pairs / load run to the parser call with symbolic field numbers (every name bound to the requested column "
            "under the documented read_csv contract, id fields movable) and every explored layout replayed end to end through the real command; zoomify -r spec expansion "
            "with a symbolic genome length; zoomify --field wiring (columns, dtypes, aggregations per named column). NOT decided: CSV rendering/parsing, gzip, number formatting.", "4/C16"),
    "C17": ("create_scool with 1-3 cells and symbolic per-cell tables / per-cell bin columns: each cell reads back its own table, bins columns are the "
            "root's objects (hard links), listing == names (incl. names differing only by leading zeros), per-cell tables with non-default row labels, recognised as scool.", "4/C17"),
    "C18": ("rename_chroms with every subset renamed, chains of two renamings, enum and integer encodings, symbolic contents: names substituted in order "
            "(same object and reopened), raw store otherwise unchanged, queries by new name == by old name, joined pixel table and single-column bin selector use the new names; one map reused on two coolers renames each as asked.", "4/C18"),
    "C19": ("parse_humanized executed from source with symbolic digits and a bit-precise binary64 encoding of float()/*/int() (exact for Fraction); "
            "parse_region_string on a grammar of 24 shapes; format->parse round trip; parse_region bounds on unbounded integers; parse_cooler_uri by CrossHair.", "4/C19"),
    "C20": ("binnify is decided for symbolic chromosome lengths (width concrete per case), get_binsize/get_chromsizes for every valid bin table of each "
            "layout with symbolic widths: a reported size implies every bin has the fixed form; chromosome lengths in int32/int16/uint32 near the type limit.", "4/C20"),
    "C03": ("For every stored matrix with n<=3 bins / K<=2 pixels (thorough n<=4,K<=3), every window, both storage modes, dense and sparse output "
            "and pixel-table output (with/without pixel ids) and every chunk size, the real api.matrix / CSRReader / FillLowerRangeQuery2D source returns the slice of the full matrix; the window "
            "planner is decided for unbounded coordinates; slice spellings are decided against Python's slice resolution for unbounded bounds; signed values; the store given by URI or open handle with two collections of one file queried interleaved.", "4/C03"),
}

PENDING = {}  # filled below

def main():
    props = [json.loads(l) for l in open(os.path.join(HERE, "properties.jsonl"))]
    na_reasons = json.load(open(os.path.join(HERE, "tools", "not_applicable.json")))
    checks = []
    na = []
    for p in props:
        pid = p["id"]
        if pid in CLAIMED:
            text, ref = CLAIMED[pid]
            checks.append(dict(
                property_id=pid,
                quick_cmd=f"./check {pid} --tier quick",
                thorough_cmd=f"./check {pid} --tier thorough",
                evidence_file=f"/verif/evidence/{pid}.json",
                replay_cmd_template=f"./check {pid} --replay {{path}}",
                engine="symex",
                level_claimed=dict(category="model_checking", text=text, design_ref=ref),
                level_note=NOTE, technique=TECH))
        else:
            na.append(dict(property_id=pid, reason=na_reasons.get(pid, "check not built yet (work in progress); see DESIGN.md section 4")))
    m = dict(
        version=1,
        setup_cmd="sh ./setup.sh",
        hooks=dict(guard="OPEN2C_COOLER_VERIF", enable="no source hooks: the checks load /repo/src/cooler through an import hook (engine/loader.py); the variable is set by ./check for form only",
                   baseline_off_cmd="cd /repo && /venv/bin/python -m pytest -ra -q -p no:cacheprovider --timeout=900 --continue-on-collection-errors",
                   source_commits=[], add_only=True),
        engines=[dict(name="symex", path="/verif/engine", serves_properties=sorted(CLAIMED),
                      kind_free_text="dynamic symbolic executor (z3) that runs cooler's real source over symbolic scalars/arrays via numpy/pandas/h5py shims; bit-precise Float64 and CrossHair side encoders for C19")],
        checks=checks,
        notes="exit 0 held / 1 VIOLATION (replayed on the real stack) / 2 inconclusive. Known findings: /verif/known_findings.json. Design: /verif/DESIGN.md.",
        not_applicable=na)
    json.dump(m, open(os.path.join(HERE, "MANIFEST.json"), "w"), indent=1)
    import jsonschema
    jsonschema.validate(m, json.load(open("/root/.vp/MANIFEST.schema.json")))
    print("MANIFEST ok:", len(checks), "claimed,", len(na), "not applicable")

if __name__ == "__main__":
    main()
