#!/bin/sh
# run every claimed check (quick tier by default) and summarise; evidence files are rewritten
cd "$(dirname "$0")/.." || exit 2
TIER="${1:-quick}"
for p in $(./.venv/bin/python -c "import json; print(' '.join(c['property_id'] for c in json.load(open('MANIFEST.json'))['checks']))"); do
  ./check "$p" --tier "$TIER" > "/tmp/runall_$p.log" 2>&1
  echo "$p exit=$? $(tail -1 /tmp/runall_$p.log | cut -c1-200)"
done
