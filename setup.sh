#!/bin/sh
# Build the overlay venv: /venv's packages (numpy, pandas, h5py, cooler editable from /repo) plus
# z3-solver / cvc5 / crosshair-tool from the offline wheelhouse. Idempotent.
set -e
HERE="$(cd "$(dirname "$0")" && pwd)"
V="$HERE/.venv"
if [ ! -x "$V/bin/python" ] || ! "$V/bin/python" -c "import z3, crosshair, cvc5, jsonschema" 2>/dev/null; then
  rm -rf "$V"
  /venv/bin/python -m venv "$V"
  echo "import site; site.addsitedir('/venv/lib/python3.12/site-packages')" > "$V/lib/python3.12/site-packages/_overlay.pth"
  PIP_NO_INDEX=1 "$V/bin/pip" install -q --no-index --find-links /opt/veriftools/wheels z3-solver cvc5 crosshair-tool jsonschema
fi
"$V/bin/python" -c "import z3, cooler, numpy, pandas, h5py; print('setup ok: z3', z3.get_version_string(), 'cooler', cooler.__file__)"
