"""debug helper: run one check case in-process, show tracebacks.  usage: dbg.py C03 reader '{"n":2,"K":2}'"""
import sys, json, traceback, time
sys.path.insert(0, '/verif')
from engine import symcore, loader
loader.install()
from engine.runner import _find_check
prop, cname = sys.argv[1], sys.argv[2]
mod, chk = _find_check(prop, cname)
params = json.loads(sys.argv[3]) if len(sys.argv) > 3 else chk.cases("quick")[0]
t = time.time()
def fn():
    try:
        return chk.sym(params)
    except symcore.Inconclusive:
        traceback.print_exc(); raise
    except Exception:
        if '-x' in sys.argv:
            traceback.print_exc()
        raise
try:
    symcore.explore(fn)
except BaseException:
    traceback.print_exc()
print(symcore.CTX.stats, round(time.time() - t, 2))
for v in symcore.CTX.violations[:5]:
    print("VIOL", v["msg"], v["inputs"])
print("covered", list(symcore.CTX.covered))
